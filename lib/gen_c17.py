"""C17 — misused macros are rejected at compile time (E3, compile-only).
One tiny bin per (guard x syntactic shape), each paired with a control that differs only by the offending element
and must compile. Decided by `cargo check --bins --keep-going --message-format=json`."""
import itertools, json, os
import e3

PRELUDE = """#![allow(unused, clippy::all)]
use konst::{destructure, Parser, parser_method};
use konst::iter::{for_each, eval, collect_const};
"""


def programs():
    P = []  # (name, must_compile, group, source)

    def add(name, ok, group, body, items=""):
        src = PRELUDE + items + "\nfn main() {}\n" + body + "\n"
        P.append((name, ok, group, src))

    # ------------------------------------------------------------------ destructure!: Drop types
    shapes = {
        "braced": ("struct S { a: String, b: String }", "S {a, b}", "S", "S { a: String::new(), b: String::new() }"),
        "tuple_struct": ("struct S(String, String);", "S(a, b)", "S", "S(String::new(), String::new())"),
        "generic_braced": ("struct S<T> { a: T, b: String }", "S {a, b}", "S<u8>", "S { a: 0u8, b: String::new() }"),
        "generic_tuple_struct": ("struct S<T>(T, String);", "S(a, b)", "S<u8>", "S(0u8, String::new())"),
    }
    for sname, (decl, pat, ty, val) in shapes.items():
        dropimpl = "impl<T> Drop for S<T> { fn drop(&mut self) {} }" if "generic" in sname else "impl Drop for S { fn drop(&mut self) {} }"
        for ann in (False, True):
            p = pat + (f": {ty}" if ann else "")
            body = f"fn f(v: {ty}) {{ destructure!{{{p} = v}} drop((a, b)); }}"
            tag = f"{sname}{'_annotated' if ann else ''}"
            add(f"drop_{tag}_invalid", False, "destructure!(Drop type)", body, decl + "\n" + dropimpl)
            add(f"drop_{tag}_control", True, "destructure!(Drop type)", body, decl)
        # also inside a const fn (the only place an *empty* Drop struct matters)
        body = f"const fn f(v: {ty}) {{ destructure!{{{pat} = v}} core::mem::forget(a); core::mem::forget(b); }}"
        add(f"drop_{sname}_constfn_invalid", False, "destructure!(Drop type)", body, decl + "\n" + dropimpl)
        add(f"drop_{sname}_constfn_control", True, "destructure!(Drop type)", body, decl)
    add("drop_empty_struct_constfn_invalid", False, "destructure!(Drop type)", "const fn f(v: E) { destructure!{E {} = v} }", "struct E {}\nimpl Drop for E { fn drop(&mut self) {} }")
    add("drop_empty_struct_constfn_control", True, "destructure!(Drop type)", "const fn f(v: E) { destructure!{E {} = v} }", "struct E {}")

    # ------------------------------------------------------------------ destructure!: references
    rshapes = {
        "braced": ("struct S { a: String, b: String }", "S {a, b}", "S"),
        "tuple_struct": ("struct S(String, String);", "S(a, b)", "S"),
        "generic_braced": ("struct S<T> { a: T, b: String }", "S {a, b}", "S<u8>"),
        "tuple": ("", "(a, b)", "(String, String)"),
        "array": ("", "[a, b]", "[String; 2]"),
        "array_rest": ("", "[a, rest @ ..]", "[String; 2]"),
    }
    for sname, (decl, pat, ty) in rshapes.items():
        use = "core::mem::forget(a);"
        for r in ("&", "&mut "):
            rn = "ref" if r == "&" else "refmut"
            add(f"ref_{sname}_{rn}_invalid", False, "destructure!(reference)", f"fn f(v: {r}{ty}) {{ destructure!{{{pat} = v}} {use} }}", decl)
            # with a type annotation naming the reference type
            add(f"ref_{sname}_{rn}_annotated_invalid", False, "destructure!(reference)", f"fn f(v: {r}{ty}) {{ destructure!{{{pat}: {r}{ty} = v}} {use} }}", decl)
            # annotation says value, expression is a reference
            add(f"ref_{sname}_{rn}_annotated_as_value_invalid", False, "destructure!(reference)", f"fn f(v: {r}{ty}) {{ destructure!{{{pat}: {ty} = v}} {use} }}", decl)
        add(f"ref_{sname}_control", True, "destructure!(reference)", f"fn f(v: {ty}) {{ destructure!{{{pat} = v}} {use} }}", decl)
        add(f"ref_{sname}_annotated_control", True, "destructure!(reference)", f"fn f(v: {ty}) {{ destructure!{{{pat}: {ty} = v}} {use} }}", decl)

    # ------------------------------------------------------------------ destructure!: wrong field / element count
    cshapes = {
        "braced": ("struct S { a: u8, b: String, c: u8 }", "S", ["a", "b", "c"], lambda fs: "S {" + ", ".join(fs) + "}", "d"),
        "tuple_struct": ("struct S(u8, String, u8);", "S", ["a", "b", "c"], lambda fs: "S(" + ", ".join(fs) + ")", "d"),
        "tuple": ("", "(u8, String, u8)", ["a", "b", "c"], lambda fs: "(" + ", ".join(fs) + ")", "d"),
        "array": ("", "[String; 3]", ["a", "b", "c"], lambda fs: "[" + ", ".join(fs) + "]", "d"),
    }
    for sname, (decl, ty, fs, mk, extra) in cshapes.items():
        add(f"count_{sname}_control", True, "destructure!(wrong count)", f"fn f(v: {ty}) {{ destructure!{{{mk(fs)} = v}} }}", decl)
        add(f"count_{sname}_one_fewer_invalid", False, "destructure!(wrong count)", f"fn f(v: {ty}) {{ destructure!{{{mk(fs[:-1])} = v}} }}", decl)
        add(f"count_{sname}_one_more_invalid", False, "destructure!(wrong count)", f"fn f(v: {ty}) {{ destructure!{{{mk(fs + [extra])} = v}} }}", decl)
        add(f"count_{sname}_one_fewer_annotated_invalid", False, "destructure!(wrong count)", f"fn f(v: {ty}) {{ destructure!{{{mk(fs[:-1])}: {ty} = v}} }}", decl)
        if sname in ("tuple_struct", "tuple"):
            add(f"count_{sname}_first_missing_invalid", False, "destructure!(wrong count)", f"fn f(v: {ty}) {{ destructure!{{{mk(fs[1:])} = v}} }}", decl)

    # ------------------------------------------------------------------ destructure!: `..` in struct / tuple struct / tuple
    for sname, (decl, ty, fs, mk, extra) in cshapes.items():
        if sname == "array":
            # `..` is supported in arrays: these are controls
            add("rest_array_trailing_control", True, "destructure!(.. rest)", f"fn f(v: {ty}) {{ destructure!{{[a, ..] = v}} }}", decl)
            add("rest_array_leading_control", True, "destructure!(.. rest)", f"fn f(v: {ty}) {{ destructure!{{[.., c] = v}} }}", decl)
            add("rest_array_middle_control", True, "destructure!(.. rest)", f"fn f(v: {ty}) {{ destructure!{{[a, .., c] = v}} }}", decl)
            continue
        add(f"rest_{sname}_trailing_invalid", False, "destructure!(.. rest)", f"fn f(v: {ty}) {{ destructure!{{{mk(['a', '..'])} = v}} }}", decl)
        add(f"rest_{sname}_leading_invalid", False, "destructure!(.. rest)", f"fn f(v: {ty}) {{ destructure!{{{mk(['..', 'c'])} = v}} }}", decl)
        add(f"rest_{sname}_middle_invalid", False, "destructure!(.. rest)", f"fn f(v: {ty}) {{ destructure!{{{mk(['a', '..', 'c'])} = v}} }}", decl)
        add(f"rest_{sname}_only_invalid", False, "destructure!(.. rest)", f"fn f(v: {ty}) {{ destructure!{{{mk(['..'])} = v}} }}", decl)
        add(f"rest_{sname}_after_all_invalid", False, "destructure!(.. rest)", f"fn f(v: {ty}) {{ destructure!{{{mk(fs + ['..'])} = v}} }}", decl)

    # ------------------------------------------------------------------ iterator DSL: two reversing methods
    revs = {"rev": "rev()", "rfind": "rfind(|x| **x == 2)", "rfold": "rfold(0u32, |a, x| a + *x)", "rposition": "rposition(|x| *x == 2)"}
    for a, b in itertools.product(revs, repeat=2):
        if a != "rev":
            continue  # only rev can come first (the others are consumers)
        if b == "rev":
            add("dsl_rev_rev_for_each_invalid", False, "DSL(two reversals)", "fn f(xs: &[u32]) { for_each!{x in xs, rev(), rev() => let _ = x; } }")
            add("dsl_rev_map_rev_for_each_invalid", False, "DSL(two reversals)", "fn f(xs: &[u32]) { for_each!{x in xs, rev(), map(|x| *x), rev() => let _ = x; } }")
            add("dsl_rev_rev_collect_const_invalid", False, "DSL(two reversals)", "const A: [&u32; 2] = collect_const!(&u32 => &[1u32, 2], rev(), rev());")
            add("dsl_rev_rev_eval_invalid", False, "DSL(two reversals)", "fn f(xs: &[u32]) -> usize { eval!(xs, rev(), rev(), count()) }")
        else:
            add(f"dsl_rev_{b}_eval_invalid", False, "DSL(two reversals)", f"fn f(xs: &[u32]) {{ let _ = eval!(xs, rev(), {revs[b]}); }}")
            add(f"dsl_rev_filter_{b}_eval_invalid", False, "DSL(two reversals)", f"fn f(xs: &[u32]) {{ let _ = eval!(xs, rev(), filter(|x| **x > 0), {revs[b]}); }}")
    for b in ("rfind", "rfold", "rposition"):
        add(f"dsl_{b}_control", True, "DSL(two reversals)", f"fn f(xs: &[u32]) {{ let _ = eval!(xs, {revs[b]}); }}")
    add("dsl_rev_for_each_control", True, "DSL(two reversals)", "fn f(xs: &[u32]) { for_each!{x in xs, rev() => let _ = x; } }")
    add("dsl_rev_collect_const_control", True, "DSL(two reversals)", "const A: [&u32; 2] = collect_const!(&u32 => &[1u32, 2], rev());")
    add("dsl_rev_eval_control", True, "DSL(two reversals)", "fn f(xs: &[u32]) -> usize { eval!(xs, rev(), count()) }")

    # ------------------------------------------------------------------ iterator DSL: unsupported method names
    for m in ("step_by(2)", "peekable()", "chain(xs)", "cloned()", "last()", "sum()", "min()", "inspect(|_| ())", "fuse()", "cycle()"):
        nm = m.split("(")[0]
        add(f"dsl_unsupported_{nm}_for_each_invalid", False, "DSL(unsupported method)", f"fn f(xs: &[u32]) {{ for_each!{{x in xs, {m} => let _ = x; }} }}")
        add(f"dsl_unsupported_{nm}_eval_invalid", False, "DSL(unsupported method)", f"fn f(xs: &[u32]) {{ let _ = eval!(xs, {m}, count()); }}")
    add("dsl_unsupported_collect_const_invalid", False, "DSL(unsupported method)", "const A: [&u32; 2] = collect_const!(&u32 => &[1u32, 2], step_by(1));")
    # a consumer inside for_each! / collect_const!
    for m in ("count()", "next()", "any(|x| *x == 1)", "fold(0u32, |a, x| a + *x)", "find(|x| **x == 1)", "nth(0)", "position(|x| *x == 1)"):
        nm = m.split("(")[0]
        add(f"dsl_consumer_{nm}_in_for_each_invalid", False, "DSL(unsupported method)", f"fn f(xs: &[u32]) {{ for_each!{{x in xs, {m} => let _ = x; }} }}")
        add(f"dsl_consumer_{nm}_in_collect_const_invalid", False, "DSL(unsupported method)", f"const A: [&u32; 2] = collect_const!(&u32 => &[1u32, 2], {m});")
    add("dsl_supported_for_each_control", True, "DSL(unsupported method)", "fn f(xs: &[u32]) { for_each!{x in xs, copied(), skip(1), take(2) => let _ = x; } }")
    add("dsl_supported_eval_control", True, "DSL(unsupported method)", "fn f(xs: &[u32]) { let _ = eval!(xs, copied(), skip(1), take(2), count()); }")
    add("dsl_supported_collect_const_control", True, "DSL(unsupported method)", "const A: [&u32; 1] = collect_const!(&u32 => &[1u32, 2], skip(1));")

    # ------------------------------------------------------------------ iterator DSL: arguments to argument-less methods
    for m, arg in [("rev", "1"), ("rev", "|x| x"), ("copied", "1"), ("enumerate", "0"), ("enumerate", "|x| x")]:
        tag = arg.replace("|", "c").replace(" ", "")
        add(f"dsl_args_{m}_{tag}_for_each_invalid", False, "DSL(arguments to argument-less method)", f"fn f(xs: &[u32]) {{ for_each!{{x in xs, {m}({arg}) => let _ = x; }} }}")
        add(f"dsl_args_{m}_{tag}_eval_invalid", False, "DSL(arguments to argument-less method)", f"fn f(xs: &[u32]) {{ let _ = eval!(xs, {m}({arg}), count()); }}")
    for arg in ("10", "|x| x"):
        tag = arg.replace("|", "c").replace(" ", "")
        add(f"dsl_args_flatten_{tag}_for_each_invalid", False, "DSL(arguments to argument-less method)", f"fn f(xs: &[&[u32]]) {{ for_each!{{x in xs, flatten({arg}) => let _ = x; }} }}")
        add(f"dsl_args_flatten_{tag}_eval_invalid", False, "DSL(arguments to argument-less method)", f"fn f(xs: &[&[u32]]) {{ let _ = eval!(xs, flatten({arg}), count()); }}")
        add(f"dsl_args_flatten_{tag}_collect_const_invalid", False, "DSL(arguments to argument-less method)", f"const A: [&u32; 2] = collect_const!(&u32 => &[&[1u32], &[2]], flatten({arg}));")
    add("dsl_args_count_eval_invalid", False, "DSL(arguments to argument-less method)", "fn f(xs: &[u32]) { let _ = eval!(xs, count(1)); }")
    add("dsl_args_count_closure_eval_invalid", False, "DSL(arguments to argument-less method)", "fn f(xs: &[u32]) { let _ = eval!(xs, count(|x| x)); }")
    add("dsl_args_next_eval_invalid", False, "DSL(arguments to argument-less method)", "fn f(xs: &[u32]) { let _ = eval!(xs, next(1)); }")
    add("dsl_noargs_for_each_control", True, "DSL(arguments to argument-less method)", "fn f(xs: &[u32]) { for_each!{x in xs, rev(), copied(), enumerate() => let _ = x; } }")
    add("dsl_noargs_flatten_control", True, "DSL(arguments to argument-less method)", "fn f(xs: &[&[u32]]) { let _ = eval!(xs, flatten(), count()); }")
    add("dsl_noargs_flatten_collect_const_control", True, "DSL(arguments to argument-less method)", "const A: [&u32; 2] = collect_const!(&u32 => &[&[1u32], &[2]], flatten());")
    add("dsl_noargs_next_control", True, "DSL(arguments to argument-less method)", "fn f(xs: &[u32]) { let _ = eval!(xs, next()); let _ = eval!(xs, count()); }")

    # ------------------------------------------------------------------ parser_method!
    items = "const PAT: &str = \"a\";\nmacro_rules! my_lit { () => { \"a\" } }\n"
    for m in ("strip_prefix", "strip_suffix", "find_skip", "rfind_skip"):
        add(f"pm_{m}_control", True, "parser_method!", f"fn f(mut p: Parser<'_>) -> u8 {{ parser_method!{{p, {m}; \"a\" => 0, \"b\" | concat!(\"c\", \"d\") => 1, _ => 2 }} }}", items)
        add(f"pm_{m}_const_pattern_invalid", False, "parser_method!", f"fn f(mut p: Parser<'_>) -> u8 {{ parser_method!{{p, {m}; PAT => 0, _ => 2 }} }}", items)
        add(f"pm_{m}_variable_pattern_invalid", False, "parser_method!", f"fn f(mut p: Parser<'_>, pat: &str) -> u8 {{ parser_method!{{p, {m}; pat => 0, _ => 2 }} }}", items)
        add(f"pm_{m}_other_macro_pattern_invalid", False, "parser_method!", f"fn f(mut p: Parser<'_>) -> u8 {{ parser_method!{{p, {m}; my_lit!() => 0, _ => 2 }} }}", items)
        add(f"pm_{m}_format_macro_pattern_invalid", False, "parser_method!", f"fn f(mut p: Parser<'_>) -> u8 {{ parser_method!{{p, {m}; env!(\"PATH\") => 0, _ => 2 }} }}", items)
        add(f"pm_{m}_char_pattern_invalid", False, "parser_method!", f"fn f(mut p: Parser<'_>) -> u8 {{ parser_method!{{p, {m}; 'a' => 0, _ => 2 }} }}", items)
        add(f"pm_{m}_byte_string_pattern_invalid", False, "parser_method!", f"fn f(mut p: Parser<'_>) -> u8 {{ parser_method!{{p, {m}; b\"a\" => 0, _ => 2 }} }}", items)
        add(f"pm_{m}_missing_default_invalid", False, "parser_method!", f"fn f(mut p: Parser<'_>) -> u8 {{ parser_method!{{p, {m}; \"a\" => 0, \"b\" => 1, }} }}", items)
        add(f"pm_{m}_missing_default_single_invalid", False, "parser_method!", f"fn f(mut p: Parser<'_>) -> u8 {{ parser_method!{{p, {m}; \"a\" => 0 }} }}", items)
        add(f"pm_{m}_tokens_after_default_invalid", False, "parser_method!", f"fn f(mut p: Parser<'_>) -> u8 {{ parser_method!{{p, {m}; \"a\" => 0, _ => 2, \"b\" => 1 }} }}", items)
        add(f"pm_{m}_second_default_invalid", False, "parser_method!", f"fn f(mut p: Parser<'_>) -> u8 {{ parser_method!{{p, {m}; \"a\" => 0, _ => 2, _ => 3 }} }}", items)
    for m in ("trim_start_matches", "trim_end_matches"):
        add(f"pm_{m}_control", True, "parser_method!", f"fn f(mut p: Parser<'_>) {{ parser_method!{{p, {m}; \"a\" | concat!(\"c\", \"d\") }} }}", items)
        add(f"pm_{m}_const_pattern_invalid", False, "parser_method!", f"fn f(mut p: Parser<'_>) {{ parser_method!{{p, {m}; PAT }} }}", items)
        add(f"pm_{m}_variable_pattern_invalid", False, "parser_method!", f"fn f(mut p: Parser<'_>, pat: &str) {{ parser_method!{{p, {m}; \"a\" | pat }} }}", items)
        add(f"pm_{m}_other_macro_pattern_invalid", False, "parser_method!", f"fn f(mut p: Parser<'_>) {{ parser_method!{{p, {m}; my_lit!() }} }}", items)
        add(f"pm_{m}_char_pattern_invalid", False, "parser_method!", f"fn f(mut p: Parser<'_>) {{ parser_method!{{p, {m}; 'a' }} }}", items)
    # a non-literal in every position of the pattern grammar: later alternative, later branch, first / last / nested concat! argument
    nonlits = [("const", "PAT"), ("variable", "pat"), ("other_macro", "my_lit!()"), ("env_macro", "env!(\"PATH\")")]
    for m in ("strip_prefix", "rfind_skip"):
        add(f"pm_{m}_nested_control", True, "parser_method!", f"fn f(mut p: Parser<'_>, pat: &str) -> u8 {{ let _ = pat; parser_method!{{p, {m}; \"a\" | \"b\" => 0, concat!(\"c\", concat!(\"d\", \"e\"), stringify!(f)) => 1, _ => 2 }} }}", items)
        for tag, nl in nonlits:
            for pos, pat in [("second_alternative", f"\"a\" | {nl} => 0, _ => 2"), ("second_branch", f"\"a\" => 0, {nl} => 1, _ => 2"),
                             ("concat_first", f"concat!({nl}, \"c\") => 0, _ => 2"), ("concat_last", f"concat!(\"c\", {nl}) => 0, _ => 2"),
                             ("concat_only", f"concat!({nl}) => 0, _ => 2"), ("concat_nested", f"concat!(\"c\", concat!(\"d\", {nl})) => 0, _ => 2"),
                             ("concat_in_alternative", f"\"a\" | concat!(\"c\", {nl}) => 0, _ => 2")]:
                add(f"pm_{m}_{tag}_{pos}_invalid", False, "parser_method!", f"fn f(mut p: Parser<'_>, pat: &str) -> u8 {{ let _ = pat; parser_method!{{p, {m}; {pat} }} }}", items)
    for tag, nl in nonlits:
        for pos, pat in [("second_alternative", f"\"a\" | {nl}"), ("concat_last", f"concat!(\"c\", {nl})"), ("concat_first", f"concat!({nl}, \"c\")")]:
            add(f"pm_trim_start_matches_{tag}_{pos}_invalid", False, "parser_method!", f"fn f(mut p: Parser<'_>, pat: &str) {{ let _ = pat; parser_method!{{p, trim_start_matches; {pat} }} }}", items)
    add("pm_unknown_method_invalid", False, "parser_method!", "fn f(mut p: Parser<'_>) -> u8 { parser_method!{p, split; \"a\" => 0, _ => 2 } }", items)
    return P


def run(tier, seed, drv):
    rep = {"violations": [], "violations_total": 0, "notes": [], "machinery_errors": [], "samples": [], "nontrivial_samples": []}
    P = programs()
    files = {f"src/bin/{name}.rs": src for name, ok, group, src in P}
    files["src/lib.rs"] = "// compile-only family for C17\n"
    ws = e3.write_workspace("C17", {"c17": files})
    errors, seen, rc, err = e3.check_json(ws, ["--bins", "-p", "c17"])
    if not seen and not errors:
        rep["machinery_errors"].append("cargo check produced no per-target results: " + err[-1500:])
        return rep
    viol = []
    rejected = 0
    groups = {}
    for name, ok, group, src in P:
        errs = errors.get(name, [])
        real = [e for e in errs if e["msg"] and "aborting due to" not in e["msg"]]
        is_rejected = bool(real)
        rejected += is_rejected
        g = groups.setdefault(group, {"invalid": 0, "invalid_rejected": 0, "control": 0, "control_accepted": 0})
        if ok:
            g["control"] += 1
            g["control_accepted"] += (not is_rejected)
            if is_rejected:
                viol.append({"engine": "compile-fail", "func": group, "replay": f"bin|{name}", "case": f"control program {name} ({group})", "expected": "compiles", "observed": "rejected: " + real[0]["msg"][:300], "class": "control-rejected", "source": src})
        else:
            g["invalid"] += 1
            g["invalid_rejected"] += is_rejected
            if not is_rejected:
                if name not in seen:
                    rep["machinery_errors"].append(f"no result for bin {name}")
                viol.append({"engine": "compile-fail", "func": group, "replay": f"bin|{name}", "case": f"invalid program {name} ({group})", "expected": "rejected by rustc", "observed": "compiles", "class": "invalid-accepted", "source": src})
    rep["violations"] = viol
    rep["violations_total"] = len(viol)
    rep["overflow_classified"] = True
    rep["states"] = len(P)
    rep["transitions"] = len(P)
    rep["traces"] = len(P)
    rep["evaluations"] = len(P)
    rep["distinct_nontrivial"] = sum(1 for _, ok, _, _ in P if not ok)
    rep["distinct_outcomes"] = 2
    rep["rule"] = "program = one misuse of destructure! / the iterator DSL / parser_method! in one syntactic shape (own bin target), or its control that differs only by the offending element; oracle = rustc via cargo check --keep-going --message-format=json: invalid => any error, control => no error; the diagnostic text is recorded, not matched; non-trivial = invalid programs"
    rep["bounds"] = f"{len(P)} programs in {len(groups)} guard families: " + "; ".join(f"{k}: {v['invalid']} invalid / {v['control']} controls" for k, v in groups.items())
    rep["samples"] = [f"{name}: " + src.split("fn main() {}\n")[1].strip()[:200] for name, ok, group, src in (P[0], P[len(P) // 3], P[len(P) // 2], P[-1])]
    rep["extra"] = {"programs": len(P), "rejected_by_rustc": rejected, "families": groups, "disagreements_checked": len(viol)}
    return rep
