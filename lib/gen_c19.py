"""C19 — Option/Result, rebind and min/max macros = std / `?` (E3 + exhaustive small inputs)."""
import itertools, json, time
import e3

PRELUDE = r'''
use std::cmp::Ordering;
use konst::{option, result};

fn mk7() -> u8 { cnt(); 7 }
fn mk_e() -> &'static str { cnt(); "E" }
fn mk_some9() -> Option<u8> { cnt(); Some(9) }
fn add1(x: u8) -> u8 { cnt(); x.wrapping_add(1) }
fn dec_opt(x: u8) -> Option<u8> { cnt(); if x > 0 { Some(x - 1) } else { None } }
fn is_even(x: &u8) -> bool { cnt(); *x % 2 == 0 }
fn len8(e: &'static str) -> u8 { cnt(); e.len() as u8 }
fn v2s(v: u8) -> &'static str { cnt(); if v == 0 { "zero" } else { "nz" } }
fn dec_res(x: u8) -> Result<u8, &'static str> { cnt(); if x > 0 { Ok(x - 1) } else { Err("neg") } }
fn rec_res(e: &'static str) -> Result<u8, &'static str> { cnt(); if e.is_empty() { Ok(42) } else { Err("still") } }
fn up(e: &'static str) -> usize { cnt(); e.len() + 10 }

fn once<T>(x: T) -> T { for _ in 0..1000 { cnt(); } x }

const OPTS: [Option<u8>; 4] = [None, Some(0), Some(1), Some(255)];
const OSTR: [Option<&'static str>; 3] = [None, Some(""), Some("x")];
const RESS: [Result<u8, &'static str>; 5] = [Ok(0), Ok(1), Ok(255), Err(""), Err("x")];

/// value + number of fallback/closure calls, rendered
fn obs<T: std::fmt::Debug>(f: impl FnOnce() -> T) -> String {
    cnt_reset();
    cu(|| { let v = f(); format!("{:?} calls={}", v, cnt_get()) })
}

#[derive(Debug, Clone, Copy, PartialEq, Eq)]
pub struct KV { pub key: u8, pub id: u8 }
konst::impl_cmp! {
    impl KV;
    pub const fn const_eq(&self, other: &Self) -> bool { self.key == other.key }
    pub const fn const_cmp(&self, other: &Self) -> Ordering { konst::const_cmp!(self.key, other.key) }
}
impl PartialOrd for KV { fn partial_cmp(&self, o: &Self) -> Option<Ordering> { Some(self.cmp(o)) } }
impl Ord for KV { fn cmp(&self, o: &Self) -> Ordering { self.key.cmp(&o.key) } }
fn cmp_kv(a: &KV, b: &KV) -> Ordering { a.key.cmp(&b.key) }
fn key_of(a: &KV) -> u8 { a.key }
thread_local! { static OPER: std::cell::Cell<(u8, u8)> = const { std::cell::Cell::new((0, 0)) }; }
/// operand expressions with an observable evaluation: each bumps its own counter, and a second evaluation yields a
/// different value (the order in which the two operands are evaluated is not observable through this)
fn ea(a: KV) -> KV { OPER.with(|c| { let (x, y) = c.get(); c.set((x + 1, y)); KV { key: a.key, id: a.id + 100 * x } }) }
fn eb(b: KV) -> KV { OPER.with(|c| { let (x, y) = c.get(); c.set((x, y + 1)); KV { key: b.key, id: b.id + 100 * y } }) }
fn obs2(f: impl FnOnce() -> KV) -> String { OPER.with(|c| c.set((0, 0))); cu(|| { let v = f(); format!("{:?} operand evaluations={:?}", v, OPER.with(|c| c.get())) }) }
fn key_rev(a: &KV) -> u8 { 255 - a.key }
fn cmp_rev(a: &KV, b: &KV) -> Ordering { b.key.cmp(&a.key) }
fn pick_key() -> fn(&KV) -> u8 { OPER.with(|c| { let (x, y) = c.get(); c.set((x + 1, y)); if x == 0 { key_of } else { key_rev } }) }
fn pick_cmp() -> fn(&KV, &KV) -> Ordering { OPER.with(|c| { let (x, y) = c.get(); c.set((x + 1, y)); if x == 0 { cmp_kv } else { cmp_rev } }) }
fn kvs() -> Vec<KV> { let mut v = Vec::new(); let mut id = 0; for key in 0..3u8 { for _ in 0..2 { v.push(KV { key, id }); id += 1; } } v }
'''


def opt_result_programs():
    """(name, body lines) ; each body pushes (case, konst, std) triples into `out`"""
    P = []

    def over(coll, var, name, k, s):
        P.append((name, [f"for {var} in {coll} {{ out.push((format!(\"{name} on {{:?}}\", {var}), obs(|| {k}), obs(|| {s}))); }}"]))
        # the receiver given as an expression whose evaluation is counted (1000 per evaluation): evaluated exactly once
        import re
        k2 = re.sub(r"!\(" + var + r"\b", f"!(once({var})", k, count=1)
        s2 = re.sub(r"^" + var + r"\.", f"once({var}).", s, count=1)
        if k2 != k and s2 != s:
            P.append((name + " [receiver expression]", [f"for {var} in {coll} {{ out.push((format!(\"{name} with the receiver as a counted expression, on {{:?}}\", {var}), obs(|| {k2}), obs(|| {s2}))); }}"]))

    # ---- Option
    over("OPTS", "o", "option::unwrap_or!(o, 7)", "option::unwrap_or!(o, 7)", "o.unwrap_or(7)")
    over("OPTS", "o", "option::unwrap_or!(o, mk7())", "option::unwrap_or!(o, mk7())", "o.unwrap_or(mk7())")
    over("OPTS", "o", "option::unwrap_or_else!(o, || closure)", "option::unwrap_or_else!(o, || { cnt(); 7 })", "o.unwrap_or_else(|| { cnt(); 7 })")
    over("OPTS", "o", "option::unwrap_or_else!(o, path)", "option::unwrap_or_else!(o, mk7)", "o.unwrap_or_else(mk7)")
    over("OPTS", "o", "option::ok_or!(o, e)", "option::ok_or!(o, \"E\")", "o.ok_or(\"E\")")
    over("OPTS", "o", "option::ok_or_else!(o, || closure)", "option::ok_or_else!(o, || { cnt(); \"E\" })", "o.ok_or_else(|| { cnt(); \"E\" })")
    over("OPTS", "o", "option::ok_or_else!(o, path)", "option::ok_or_else!(o, mk_e)", "o.ok_or_else(mk_e)")
    over("OPTS", "o", "option::map!(o, |x| closure)", "option::map!(o, |x| { cnt(); x.wrapping_add(1) })", "o.map(|x| { cnt(); x.wrapping_add(1) })")
    over("OPTS", "o", "option::map!(o, path)", "option::map!(o, add1)", "o.map(add1)")
    over("OPTS", "o", "option::and_then!(o, |x| closure)", "option::and_then!(o, |x| { cnt(); if x > 0 { Some(x - 1) } else { None } })", "o.and_then(|x| { cnt(); if x > 0 { Some(x - 1) } else { None } })")
    over("OPTS", "o", "option::and_then!(o, path)", "option::and_then!(o, dec_opt)", "o.and_then(dec_opt)")
    over("OPTS", "o", "option::or_else!(o, || closure)", "option::or_else!(o, || { cnt(); Some(9) })", "o.or_else(|| { cnt(); Some(9) })")
    over("OPTS", "o", "option::or_else!(o, path)", "option::or_else!(o, mk_some9)", "o.or_else(mk_some9)")
    over("OPTS", "o", "option::filter!(o, |x| closure)", "option::filter!(o, |x| { cnt(); *x % 2 == 0 })", "o.filter(|x| { cnt(); *x % 2 == 0 })")
    over("OPTS", "o", "option::filter!(o, |&x| pattern closure)", "option::filter!(o, |&x| x % 2 == 0)", "o.filter(|&x| x % 2 == 0)")
    over("OPTS", "o", "option::filter!(o, path)", "option::filter!(o, is_even)", "o.filter(is_even)")
    over("OSTR", "o", "option::map!(str, |s| len)", "option::map!(o, |s| s.len())", "o.map(|s| s.len())")
    over("OSTR", "o", "option::unwrap_or!(str)", "option::unwrap_or!(o, \"dflt\")", "o.unwrap_or(\"dflt\")")
    P.append(("option::flatten!", ["for a in OPTS { for oo in [None, Some(a)] { out.push((format!(\"option::flatten! on {:?}\", oo), obs(|| option::flatten!(oo)), obs(|| oo.flatten()))); } }"]))
    P.append(("option::copied", ["for o in OPTS { let r = o.as_ref(); out.push((format!(\"option::copied on {:?}\", r), obs(|| option::copied(r)), obs(|| r.copied()))); }"]))
    # ---- Result
    over("RESS", "r", "result::unwrap_or!(r, 7)", "result::unwrap_or!(r, 7)", "r.unwrap_or(7)")
    # eager arguments are evaluated exactly once whatever the variant (std evaluates them before the call)
    over("RESS", "r", "result::unwrap_or!(r, mk7())", "result::unwrap_or!(r, mk7())", "r.unwrap_or(mk7())")
    over("OPTS", "o", "option::ok_or!(o, mk_e())", "option::ok_or!(o, mk_e())", "o.ok_or(mk_e())")
    over("RESS", "r", "result::unwrap_or_else!(r, |e| closure)", "result::unwrap_or_else!(r, |e| { cnt(); e.len() as u8 })", "r.unwrap_or_else(|e| { cnt(); e.len() as u8 })")
    over("RESS", "r", "result::unwrap_or_else!(r, path)", "result::unwrap_or_else!(r, len8)", "r.unwrap_or_else(len8)")
    over("RESS", "r", "result::unwrap_err_or_else!(r, |v| closure)", "result::unwrap_err_or_else!(r, |v| { cnt(); if v == 0 { \"zero\" } else { \"nz\" } })", "match r { Ok(v) => { cnt(); if v == 0 { \"zero\" } else { \"nz\" } } Err(e) => e }")
    over("RESS", "r", "result::unwrap_err_or_else!(r, path)", "result::unwrap_err_or_else!(r, v2s)", "match r { Ok(v) => v2s(v), Err(e) => e }")
    over("RESS", "r", "result::ok!(r)", "result::ok!(r)", "r.ok()")
    over("RESS", "r", "result::err!(r)", "result::err!(r)", "r.err()")
    over("RESS", "r", "result::map!(r, |x| closure)", "result::map!(r, |x| { cnt(); x.wrapping_add(1) })", "r.map(|x| { cnt(); x.wrapping_add(1) })")
    over("RESS", "r", "result::map!(r, path)", "result::map!(r, add1)", "r.map(add1)")
    over("RESS", "r", "result::map_err!(r, |e| closure)", "result::map_err!(r, |e| { cnt(); e.len() + 10 })", "r.map_err(|e| { cnt(); e.len() + 10 })")
    over("RESS", "r", "result::map_err!(r, path)", "result::map_err!(r, up)", "r.map_err(up)")
    over("RESS", "r", "result::and_then!(r, |x| closure)", "result::and_then!(r, |x| { cnt(); if x > 0 { Ok(x - 1) } else { Err(\"neg\") } })", "r.and_then(|x| { cnt(); if x > 0 { Ok(x - 1) } else { Err(\"neg\") } })")
    over("RESS", "r", "result::and_then!(r, path)", "result::and_then!(r, dec_res)", "r.and_then(dec_res)")
    over("RESS", "r", "result::or_else!(r, |e| closure)", "result::or_else!(r, |e| { cnt(); if e.is_empty() { Ok(42) } else { Err(\"still\") } })", "r.or_else(|e: &str| -> Result<u8, &'static str> { cnt(); if e.is_empty() { Ok(42) } else { Err(\"still\") } })")
    over("RESS", "r", "result::or_else!(r, path)", "result::or_else!(r, rec_res)", "r.or_else(rec_res)")
    # ---- try_ / try_opt
    P.append(("try_!", [
        "fn k(r: Result<u8, &'static str>) -> Result<u16, &'static str> { let v = konst::try_!(r); cnt(); Ok(v as u16 + 1) }",
        "fn s(r: Result<u8, &'static str>) -> Result<u16, &'static str> { let v = r?; cnt(); Ok(v as u16 + 1) }",
        "for r in RESS { out.push((format!(\"try_! on {:?}\", r), obs(|| k(r)), obs(|| s(r)))); }"]))
    P.append(("try_!(map_err = |e|)", [
        "fn k(r: Result<u8, &'static str>) -> Result<u16, usize> { let v = konst::try_!(r, map_err = |e| { cnt(); e.len() + 100 }); Ok(v as u16 + 1) }",
        "fn s(r: Result<u8, &'static str>) -> Result<u16, usize> { let v = r.map_err(|e| { cnt(); e.len() + 100 })?; Ok(v as u16 + 1) }",
        "for r in RESS { out.push((format!(\"try_!(map_err=|e|) on {:?}\", r), obs(|| k(r)), obs(|| s(r)))); }"]))
    P.append(("try_opt!", [
        "fn k(o: Option<u8>) -> Option<u16> { let v = konst::try_opt!(o); cnt(); Some(v as u16 + 1) }",
        "fn s(o: Option<u8>) -> Option<u16> { let v = o?; cnt(); Some(v as u16 + 1) }",
        "for o in OPTS { out.push((format!(\"try_opt! on {:?}\", o), obs(|| k(o)), obs(|| s(o)))); }"]))
    # ---- min / max families: all ordered pairs of keyed values with distinct identity
    mm = [
        ("min!", "konst::min!(a, b)", "std::cmp::min(a, b)"),
        ("max!", "konst::max!(a, b)", "std::cmp::max(a, b)"),
        ("min_by!(closure)", "konst::min_by!(a, b, |l, r| konst::const_cmp!(l.key, r.key))", "std::cmp::min_by(a, b, |l, r| l.key.cmp(&r.key))"),
        ("max_by!(closure)", "konst::max_by!(a, b, |l, r| konst::const_cmp!(l.key, r.key))", "std::cmp::max_by(a, b, |l, r| l.key.cmp(&r.key))"),
        ("min_by!(typed closure)", "konst::min_by!(a, b, |l: &KV, r: &KV| l.key.cmp(&r.key))", "std::cmp::min_by(a, b, |l, r| l.key.cmp(&r.key))"),
        ("min_by!(path)", "konst::min_by!(a, b, cmp_kv)", "std::cmp::min_by(a, b, cmp_kv)"),
        ("max_by!(path)", "konst::max_by!(a, b, cmp_kv)", "std::cmp::max_by(a, b, cmp_kv)"),
        ("min_by_key!(closure)", "konst::min_by_key!(a, b, |x| x.key)", "std::cmp::min_by_key(a, b, |x| x.key)"),
        ("max_by_key!(closure)", "konst::max_by_key!(a, b, |x| x.key)", "std::cmp::max_by_key(a, b, |x| x.key)"),
        ("min_by_key!(path)", "konst::min_by_key!(a, b, key_of)", "std::cmp::min_by_key(a, b, key_of)"),
        ("max_by_key!(path)", "konst::max_by_key!(a, b, key_of)", "std::cmp::max_by_key(a, b, key_of)"),
    ]
    for name, k, s in mm:
        P.append((name, [f"for a in kvs() {{ for b in kvs() {{ if a.id == b.id {{ continue; }} out.push((format!(\"{name} on {{:?}}, {{:?}}\", a, b), obs(|| {k}), obs(|| {s}))); }} }}"]))
    # operand expressions are evaluated exactly once each, and the returned value is one of the two values they produced
    for name, k, st in mm:
        k2 = k.replace("(a, b", "(ea(a), eb(b)")
        s2 = st.replace("(a, b", "(ea(a), eb(b)")
        P.append((name + " with operand expressions", [f"for a in kvs() {{ for b in kvs() {{ if a.id == b.id {{ continue; }} out.push((format!(\"{name} on expressions yielding {{:?}}, {{:?}}\", a, b), obs2(|| {k2}), obs2(|| {s2}))); }} }}"]))
    # a function-valued key / comparator *expression* is evaluated once, like the argument of the std function
    # (a second evaluation is counted and yields the reversed key / comparator)
    for name, k, st in [
        ("min_by_key!(function-valued expression)", "konst::min_by_key!(a, b, pick_key())", "std::cmp::min_by_key(a, b, pick_key())"),
        ("max_by_key!(function-valued expression)", "konst::max_by_key!(a, b, pick_key())", "std::cmp::max_by_key(a, b, pick_key())"),
        ("min_by!(function-valued expression)", "konst::min_by!(a, b, pick_cmp())", "std::cmp::min_by(a, b, pick_cmp())"),
        ("max_by!(function-valued expression)", "konst::max_by!(a, b, pick_cmp())", "std::cmp::max_by(a, b, pick_cmp())"),
    ]:
        P.append((name, [f"for a in kvs() {{ for b in kvs() {{ if a.id == b.id {{ continue; }} out.push((format!(\"{name} on {{:?}}, {{:?}}\", a, b), obs2(|| {k}), obs2(|| {st}))); }} }}"]))
    # (operand *evaluation order* of min!/max! is deliberately not compared: the statement speaks of pairs of values;
    #  the pinned max_by_key! evaluates its operands right to left)
    # min!/max! on primitives (u8 all pairs of a small set)
    P.append(("min!/max!(u8)", ["for a in [0u8, 1, 2, 255] { for b in [0u8, 1, 2, 255] { out.push((format!(\"min!({a},{b})\"), obs(|| konst::min!(a, b)), obs(|| a.min(b)))); out.push((format!(\"max!({a},{b})\"), obs(|| konst::max!(a, b)), obs(|| a.max(b)))); } }"]))
    # every primitive integer type, every pair over a boundary set incl. both ends, the sign boundary and the middle of the range
    # (round 15: a comparison that widened both operands to i128 and so mis-ordered u128 values >= 2^127); the by-key forms carry
    # a tag so that the returned *argument* is visible when the keys compare equal
    for ty in ["u8", "u16", "u32", "u64", "u128", "usize", "i8", "i16", "i32", "i64", "i128", "isize"]:
        vals = f"[{ty}::MIN, {ty}::MIN + 1, 0, 1, {ty}::MAX / 2, {ty}::MAX / 2 + 1, {ty}::MAX - 1, {ty}::MAX" + (", -1, -2]" if ty[0] == "i" else "]")
        P.append((f"min!/max!({ty})", [f"let vals: Vec<{ty}> = vec!{vals};",
                  f"for &a in &vals {{ for &b in &vals {{ out.push((format!(\"min!({{a}}{ty}, {{b}}{ty})\"), obs(|| konst::min!(a, b)), obs(|| std::cmp::min(a, b)))); out.push((format!(\"max!({{a}}{ty}, {{b}}{ty})\"), obs(|| konst::max!(a, b)), obs(|| std::cmp::max(a, b)))); }} }}"]))
        P.append((f"min_by_key!/max_by_key!(key: {ty})", ["#[derive(Debug, Clone, Copy, PartialEq)] struct Kx { key: " + ty + ", tag: u8 }", f"let vals: Vec<{ty}> = vec!{vals};",
                  "for &ka in &vals { for &kb in &vals { let (a, b) = (Kx { key: ka, tag: 1 }, Kx { key: kb, tag: 2 });",
                  f"    out.push((format!(\"min_by_key!(key {{ka}}{ty}, key {{kb}}{ty})\"), obs(|| konst::min_by_key!(a, b, |x| x.key)), obs(|| std::cmp::min_by_key(a, b, |x| x.key))));",
                  f"    out.push((format!(\"max_by_key!(key {{ka}}{ty}, key {{kb}}{ty})\"), obs(|| konst::max_by_key!(a, b, |x| x.key)), obs(|| std::cmp::max_by_key(a, b, |x| x.key))));",
                  f"    out.push((format!(\"min_by!(const_cmp!, key {{ka}}{ty}, key {{kb}}{ty})\"), obs(|| konst::min_by!(a, b, |l, r| konst::const_cmp!(l.key, r.key))), obs(|| std::cmp::min_by(a, b, |l, r| l.key.cmp(&r.key)))));",
                  f"    out.push((format!(\"max_by!(const_cmp!, key {{ka}}{ty}, key {{kb}}{ty})\"), obs(|| konst::max_by!(a, b, |l, r| konst::const_cmp!(l.key, r.key))), obs(|| std::cmp::max_by(a, b, |l, r| l.key.cmp(&r.key)))));",
                  "} }"]))
    return P


KINDS = ["place", "let", "let_ty", "wild"]


def js(t):
    return '"' + t.replace("\\", "\\\\").replace('"', '\\"') + '"'


def rebind_programs(tier="quick"):
    """try_rebind! / rebind_if_ok! for every arity 1..=6 and assignment of position kinds"""
    out = []
    combos = []
    for n in range(1, 7):
        if n <= (4 if tier == "thorough" else 3):
            combos += [(n, c) for c in itertools.product(KINDS, repeat=n)]
        else:
            combos += [(n, tuple([k] * n)) for k in KINDS]
            for pos in range(n):
                for k in KINDS[1:]:
                    c = ["place"] * n
                    c[pos] = k
                    combos.append((n, tuple(c)))
    for n, kinds in combos:
        tys = ", ".join(["u32"] * n)
        ty = f"({tys},)" if n == 1 else f"({tys})"
        vals = ", ".join(str(10 * (i + 1)) for i in range(n))
        val = f"({vals},)" if n == 1 else f"({vals})"
        pats, decls, reads = [], [], []
        for i, k in enumerate(kinds):
            if k == "place":
                decls.append(f"let mut v{i} = 0u32;")
                pats.append(f"v{i}")
                reads.append(f"v{i}")
            elif k == "let":
                pats.append(f"let w{i}")
                reads.append(f"w{i}")
            elif k == "let_ty":
                pats.append(f"let w{i}: u32")
                reads.append(f"w{i}")
            else:
                pats.append("_")
                reads.append("0u32")
        # single-component payloads are plain values, not 1-tuples
        if n == 1:
            ty, val = "u32", "10"
        pat = "(" + ", ".join(pats) + ")"
        exp_ok = "vec![" + ", ".join((str(10 * (i + 1)) if k != "wild" else "0") for i, k in enumerate(kinds)) + "]"
        name = f"arity {n} [{','.join(kinds)}]"
        body_try = [
            f"fn k(r: Result<{ty}, u8>) -> Result<Vec<u32>, u8> {{ {' '.join(decls)} konst::try_rebind!{{{pat} = r}} Ok(vec![{', '.join(reads)}]) }}",
            f"out.push((\"try_rebind! {name} on Ok\".to_string(), cu(|| format!(\"{{:?}}\", k(Ok({val})))), format!(\"{{:?}}\", Ok::<Vec<u32>, u8>({exp_ok}))));",
            f"out.push((\"try_rebind! {name} on Err\".to_string(), cu(|| format!(\"{{:?}}\", k(Err(3)))), format!(\"{{:?}}\", Err::<Vec<u32>, u8>(3))));",
        ]
        out.append((f"try_rebind! {name}", body_try))
        body_if = [
            f"fn k(r: Result<{ty}, u8>) -> Vec<u32> {{ {' '.join(decls)} let mut res = vec![999]; konst::rebind_if_ok!{{{pat} = r => res = vec![{', '.join(reads)}]; }} res }}",
            f"out.push((\"rebind_if_ok! {name} on Ok\".to_string(), cu(|| format!(\"{{:?}}\", k(Ok({val})))), format!(\"{{:?}}\", {exp_ok})));",
            f"out.push((\"rebind_if_ok! {name} on Err\".to_string(), cu(|| format!(\"{{:?}}\", k(Err(3)))), format!(\"{{:?}}\", vec![999u32])));",
        ]
        out.append((f"rebind_if_ok! {name}", body_if))
    # unparenthesised single targets (plain value and whole-tuple payloads) and a type annotation on the whole pattern
    # (name, payload type, value, declarations, pattern, reads, expected, also valid for try_rebind!: it takes one token tree, no annotation)
    single = [
        ("x = r (u32 payload)", "u32", "10", "let mut x = 0u32;", "x", "vec![x]", "vec![10]", True),
        ("x: u32 = r (u32 payload)", "u32", "10", "let mut x = 0u32;", "x: u32", "vec![x]", "vec![10]", False),
        ("_ = r (u32 payload)", "u32", "10", "", "_", "vec![0u32]", "vec![0]", True),
        ("_: u32 = r (u32 payload)", "u32", "10", "", "_: u32", "vec![0u32]", "vec![0]", False),
        ("t = r (whole tuple payload into one place)", "(u32, u32)", "(10, 20)", "let mut t = (0u32, 0u32);", "t", "vec![t.0, t.1]", "vec![10, 20]", True),
        ("t: (u32, u32) = r (whole tuple payload, typed)", "(u32, u32)", "(10, 20)", "let mut t = (0u32, 0u32);", "t: (u32, u32)", "vec![t.0, t.1]", "vec![10, 20]", False),
        ("(s.f) = r (field place)", "u32", "10", "struct S { f: u32 } let mut s = S { f: 0 };", "(s.f)", "vec![s.f]", "vec![10]", True),
        ("(a, b): (u32, u32) = r (annotation on the whole pattern)", "(u32, u32)", "(10, 20)", "let mut a = 0u32; let mut b = 0u32;", "(a, b): (u32, u32)", "vec![a, b]", "vec![10, 20]", False),
        ("(a, b, c): (u32, u32, u32) = r (annotation on the whole pattern)", "(u32, u32, u32)", "(10, 20, 30)", "let mut a = 0u32; let mut b = 0u32; let mut c = 0u32;", "(a, b, c): (u32, u32, u32)", "vec![a, b, c]", "vec![10, 20, 30]", False),
    ]
    for name, ty, val, decls, pat, reads, exp_ok, for_try in single:
        if for_try:
          out.append((f"try_rebind! {name}", [
              f"fn k(r: Result<{ty}, u8>) -> Result<Vec<u32>, u8> {{ {decls} konst::try_rebind!{{{pat} = r}} Ok({reads}) }}",
              f"out.push(({js(f'try_rebind! {name} on Ok')}.to_string(), cu(|| format!(\"{{:?}}\", k(Ok({val})))), format!(\"{{:?}}\", Ok::<Vec<u32>, u8>({exp_ok}))));",
              f"out.push(({js(f'try_rebind! {name} on Err')}.to_string(), cu(|| format!(\"{{:?}}\", k(Err(3)))), format!(\"{{:?}}\", Err::<Vec<u32>, u8>(3))));",
          ]))
        out.append((f"rebind_if_ok! {name}", [
            f"fn k(r: Result<{ty}, u8>) -> Vec<u32> {{ {decls} let mut res = vec![999]; konst::rebind_if_ok!{{{pat} = r => res = {reads}; }} res }}",
            f"out.push(({js(f'rebind_if_ok! {name} on Ok')}.to_string(), cu(|| format!(\"{{:?}}\", k(Ok({val})))), format!(\"{{:?}}\", {exp_ok})));",
            f"out.push(({js(f'rebind_if_ok! {name} on Err')}.to_string(), cu(|| format!(\"{{:?}}\", k(Err(3)))), format!(\"{{:?}}\", vec![999u32])));",
        ]))
    # in-order assignment: later places that depend on / alias earlier ones
    out.append(("try_rebind! order (i, arr[i])", [
        "fn k(r: Result<(usize, u32), u8>) -> Result<(usize, [u32; 3]), u8> { let mut i = 0usize; let mut arr = [0u32; 3]; konst::try_rebind!{(i, arr[i]) = r} Ok((i, arr)) }",
        "fn s(r: Result<(usize, u32), u8>) -> Result<(usize, [u32; 3]), u8> { let mut i = 0usize; let mut arr = [0u32; 3]; let t = r?; i = t.0; arr[i] = t.1; Ok((i, arr)) }",
        "for r in [Ok((1usize, 99u32)), Ok((2, 7)), Ok((0, 5)), Err(4)] { out.push((format!(\"try_rebind!{{(i, arr[i]) = {:?}}}\", r), cu(|| format!(\"{:?}\", k(r))), format!(\"{:?}\", s(r)))); }"]))
    out.append(("rebind_if_ok! order (a, a)", [
        "fn k(r: Result<(u32, u32), u8>) -> u32 { let mut a = 0u32; konst::rebind_if_ok!{(a, a) = r} a }",
        "for r in [Ok((1u32, 2u32)), Ok((5, 5)), Err(4)] { let e = match r { Ok(t) => t.1, Err(_) => 0 }; out.push((format!(\"rebind_if_ok!{{(a, a) = {:?}}}\", r), cu(|| format!(\"{:?}\", k(r))), format!(\"{:?}\", e))); }"]))
    out.append(("try_rebind! order (q, q.0) 3 components", [
        "fn k(r: Result<((u32, u32), u32, u32), u8>) -> Result<(u32, u32), u8> { let mut q = (0u32, 0u32); konst::try_rebind!{(q, q.0, q.1) = r} Ok(q) }",
        "out.push((\"try_rebind!{(q, q.0, q.1) = Ok(((1,2),3,4))}\".to_string(), cu(|| format!(\"{:?}\", k(Ok(((1, 2), 3, 4))))), format!(\"{:?}\", Ok::<(u32, u32), u8>((3, 4)))));"]))
    return out


def run(tier, seed, drv):
    t0 = time.time()
    rep = {"violations": [], "violations_total": 0, "notes": [], "machinery_errors": [], "samples": [], "nontrivial_samples": []}
    ps = e3.ProgSet("C19", "c19", 8, e3.RUNNER_SUPPORT, prelude=PRELUDE)
    allp = opt_result_programs() + rebind_programs(tier)
    names = {}
    for i, (name, body) in enumerate(allp):
        names[i] = name
        lines = [f"// {name}", f"fn p{i}() -> Vec<(String, String, String)> {{", "    let mut out: Vec<(String, String, String)> = Vec::new();"] + ["    " + b for b in body] + ["    out", "}"]
        ps.add(i, lines, f"Prog {{ id: {i}, f: p{i} }}")
    ws, rejected, mach = ps.build()
    rep["machinery_errors"] += mach
    if mach:
        return rep
    res, mach = ps.run_all(ws)
    rep["machinery_errors"] += mach
    if mach:
        return rep
    viol = []
    # a rejected program: the property demands that every rebind arity / macro form compiles
    for pid, msg in sorted(rejected.items()):
        viol.append({"engine": "optres", "func": names[pid].split()[0], "replay": f"prog|{pid}", "case": names[pid], "expected": "compiles", "observed": "rejected by rustc: " + msg[:400], "class": "rejected"})
    evals = 0
    nontriv = 0
    for r in res:
        evals += r["n"]
        if r["outcomes"] > 1:
            nontriv += 1
        if r["bad"]:
            fb = r["first_bad"]
            viol.append({"engine": "optres", "func": names[r["id"]].split()[0], "replay": f"prog|{r['id']}", "case": (names[r["id"]] + ": " + fb["case"]) if r.get("crash") else fb["case"], "expected": fb["std"], "observed": fb["konst"], "class": "mismatch", "bad_cases": r["bad"]})
    rep["violations"] = viol
    rep["violations_total"] = len(viol)
    rep["overflow_classified"] = True
    rep["states"] = len(allp)
    rep["transitions"] = evals
    rep["traces"] = evals
    rep["evaluations"] = evals
    rep["distinct_nontrivial"] = nontriv
    rep["distinct_outcomes"] = sum(r["outcomes"] for r in res)
    rep["rule"] = ("program = one macro x argument form (closure / function path), executed on every value of its small input set next to the std method / `?` / std::cmp function; observation = returned value + number of fallback/closure calls (identity of the returned argument for min/max via a key-only ordering on (key,id) values); rebind: every arity 1..=6 x position kinds {place, let, let: T, _} (all assignments for arity <= 3 (thorough: <= 4), uniform + single-position variations above), both Ok and Err, plus places that depend on earlier components; a program rustc rejects is a violation (the property demands every listed form); non-trivial = programs with more than one distinct outcome")
    rep["bounds"] = f"{len(allp)} programs; Option<u8> x {{None,Some(0),Some(1),Some(255)}}, Option<&str> x 3, Result<u8,&str> x 5, all 30 ordered pairs of 6 (key,id) values over keys 0..3; min!/max!/min_by_key!/max_by_key!/min_by!/max_by!(const_cmp!) over all pairs of 8-10 boundary values (MIN, MIN+1, 0, 1, MAX/2, MAX/2+1, MAX-1, MAX, -1, -2) of each of the 12 primitive integer types"
    rep["samples"] = [names[i] for i in list(names)[:4]] + [names[len(names) // 2], names[len(names) - 1]]
    rep["extra"] = {"programs": len(allp), "rejected_by_rustc": len(rejected), "disagreements_checked": len(viol)}
    return rep
