"""C01 — no UB in the safe API; results inside the input; valid UTF-8. Three monitors riding on the other explorations:
(1) rustc's const evaluator (building harness/ctfe), (2) the native sub-range / UTF-8 oracle (rt C01),
(3) the Miri interpreter on the reduced-bound explorers (parallel interpreter processes, one per engine)."""
import concurrent.futures, json, os, re, subprocess, time
import e3

ROOT = e3.ROOT
N_ENGINES = 11
FEAT = []  # cargo feature arguments of the current harness build (set from the driver: see build_rt in /verif/check)


def scan_unsafe():
    sites = {}
    for base in ("konst/src", "konst_kernel/src", "konst_proc_macros/src"):
        for dp, dn, fn in os.walk(os.path.join("/repo", base)):
            for f in fn:
                if not f.endswith(".rs"):
                    continue
                p = os.path.join(dp, f)
                n = 0
                for line in open(p, errors="replace"):
                    t = line.strip()
                    if t.startswith("//"):
                        continue
                    n += len(re.findall(r"\bunsafe\b", t))
                if n:
                    sites[os.path.relpath(p, "/repo")] = n
    return sites


def ctfe_stage(rep):
    env = dict(os.environ, CARGO_NET_OFFLINE="true", CARGO_TARGET_DIR=os.path.join(ROOT, "target"))
    p = subprocess.run(["cargo", "build", "--release", "--offline", "-p", "ctfe", "--message-format=json"], cwd=os.path.join(ROOT, "harness"), env=env, stdout=subprocess.PIPE, stderr=subprocess.PIPE, text=True, errors="replace")
    errs = []
    for line in p.stdout.split("\n"):
        if not line.startswith("{"):
            continue
        try:
            m = json.loads(line)
        except json.JSONDecodeError:
            continue
        if m.get("reason") == "compiler-message" and m["message"].get("level") == "error":
            msg = m["message"]
            if "aborting due to" in msg.get("message", "") or "could not compile" in msg.get("message", ""):
                continue
            errs.append(msg)
    drivers = len(re.findall(r"^const _:|^const R\d", open(os.path.join(ROOT, "harness/ctfe/src/lib.rs")).read(), re.M))
    for msg in errs:
        code = (msg.get("code") or {}).get("code")
        rendered = (msg.get("rendered") or "")[:1200]
        if msg["target"]["name"] != "ctfe" if "target" in msg else False:
            continue
        # E0080 = const evaluation failed (UB or panic inside konst during CTFE): the verdict of this stage.
        # anything else (type errors, missing items) means the battery no longer builds against /repo's API: machinery.
        if code == "E0080" or "evaluation" in msg.get("message", ""):
            rep["violations"].append({"engine": "ctfe", "func": "const evaluation", "replay": "ctfe", "case": "compile-time battery harness/ctfe: " + msg.get("message", "")[:200],
                                      "expected": "const evaluation without undefined behaviour or panic", "observed": rendered, "class": "ctfe"})
        else:
            rep["machinery_errors"].append("ctfe battery does not build: " + msg.get("message", "")[:300])
    if p.returncode != 0 and not errs:
        rep["machinery_errors"].append("ctfe build failed without diagnostics: " + p.stderr[-800:])
    return drivers


def miri_engine(i, deep):
    env = dict(os.environ, CARGO_NET_OFFLINE="true", CARGO_TARGET_DIR=os.path.join(ROOT, "target", "miri"), MIRIFLAGS="-Zmiri-disable-isolation -Zmiri-ignore-leaks -Zmiri-symbolic-alignment-check")
    sel = ["--engines", str(i)] + (["--deep"] if deep else [])
    out = os.path.join(ROOT, "evidence", f".C01.miri.{i}.json")
    t = time.time()
    try:
        p = subprocess.run(["cargo", "+nightly", "miri", "run", "--offline", "-q", "-p", "rt"] + FEAT + ["--", "C01", "--tier", "miri", "--out", out] + sel, cwd=os.path.join(ROOT, "harness"), env=env,
                           stdout=subprocess.PIPE, stderr=subprocess.PIPE, text=True, errors="replace", timeout=3 * 3600 if deep else 900)
    except subprocess.TimeoutExpired:
        return i, None, "timeout", "", time.time() - t
    r = None
    if os.path.exists(out):
        try:
            r = json.load(open(out))
        except Exception:
            r = None
        os.remove(out)
    return i, r, p.returncode, p.stderr, time.time() - t


def run(tier, seed, drv):
    t0 = time.time()
    rep = {"violations": [], "violations_total": 0, "notes": [], "machinery_errors": [], "samples": [], "nontrivial_samples": []}
    # the interpreter build of the harness starts right away, next to the native builds (separate target directory)
    import threading, sys
    deep = tier == "thorough"
    env = dict(os.environ, CARGO_NET_OFFLINE="true", CARGO_TARGET_DIR=os.path.join(ROOT, "target", "miri"), MIRIFLAGS="-Zmiri-disable-isolation -Zmiri-ignore-leaks -Zmiri-symbolic-alignment-check")
    mb = {}

    def miri_build(feat):
        mb["b"] = subprocess.run(["cargo", "+nightly", "miri", "run", "--offline", "-q", "-p", "rt"] + feat + ["--", "C01", "--tier", "miri", "--out", "/dev/null", "--engines", "999"], cwd=os.path.join(ROOT, "harness"), env=env, stdout=subprocess.PIPE, stderr=subprocess.PIPE, text=True, errors="replace")
    mbt = threading.Thread(target=miri_build, args=([],))
    mbt.start()
    # ---- (1) compile-time battery
    drivers = ctfe_stage(rep)
    # ---- (2) native oracle stage
    drv["build_rt"]("C01")
    FEAT[:] = drv["rt_build"]["feature_args"]
    if drv["rt_build"]["excluded"]:
        rep["notes"].append("engine modules left out of this run because they do not build against this tree (a rejected program cannot be undefined behaviour; their own properties' checks judge the rejection): " + ", ".join(drv["rt_build"]["excluded"]) + " | " + " | ".join(drv["rt_build"]["errors"][:4]))
        rep.setdefault("caps_hit", []).append("engine modules not compiled: " + ",".join(drv["rt_build"]["excluded"]))
    # the native stage runs while the interpreter stage is busy (quick tier: keeps the check near a minute)
    native = {}

    def native_stage():
        try:
            native["rt"] = drv["run_rt"]("C01", tier, 3 * 3600)
        except SystemExit as e:  # machinery() inside run_rt
            native["exit"] = e.code
        except BaseException as e:  # noqa
            native["exc"] = e
    nth = threading.Thread(target=native_stage)
    nth.start()

    def native_result():
        nth.join()
        if "exit" in native:
            sys.exit(native["exit"])
        if "exc" in native:
            raise native["exc"]
        return native["rt"]
    # ---- (3) Miri: first make sure the interpreter build exists (one build, then parallel runs)
    mbt.join()
    if FEAT:
        miri_build(list(FEAT))  # some engine modules do not build against this tree: interpreter build without them
    b = mb["b"]
    if b.returncode != 0:
        nth.join()
        rep["machinery_errors"].append("cargo miri could not build/run the harness: " + b.stderr[-1500:])
        return rep
    n_eng = N_ENGINES + (3 if deep else 0)
    miri_states = miri_trans = 0
    per_engine = {}
    with concurrent.futures.ThreadPoolExecutor(14) as ex:
        for i, r, rc, err, secs in ex.map(lambda i: miri_engine(i, deep), range(n_eng)):
            name = next((l.split("C01-MIRI-ENGINE-START ", 1)[1] for l in err.split("\n") if "C01-MIRI-ENGINE-START" in l), f"engine #{i}")
            per_engine[name] = {"seconds": round(secs, 1), "exit": rc}
            ub = "Undefined Behavior" in err or "error: unsupported operation" in err or "error: memory leaked" in err
            if rc == "timeout":
                rep["machinery_errors"].append(f"Miri engine {name} exceeded its time limit")
                continue
            if ub and "Undefined Behavior" in err:
                msg = err[err.index("Undefined Behavior") - 7:][:2500]
                only_sb = "Stacked Borrows" in msg or "tag" in msg and "retag" in msg
                confirmed = True
                if only_sb:
                    env2 = dict(os.environ, CARGO_NET_OFFLINE="true", CARGO_TARGET_DIR=os.path.join(ROOT, "target", "miri"), MIRIFLAGS="-Zmiri-disable-isolation -Zmiri-ignore-leaks -Zmiri-symbolic-alignment-check -Zmiri-tree-borrows")
                    p2 = subprocess.run(["cargo", "+nightly", "miri", "run", "--offline", "-q", "-p", "rt"] + FEAT + ["--", "C01", "--tier", "miri", "--out", "/dev/null", "--engines", str(i)] + (["--deep"] if deep else []), cwd=os.path.join(ROOT, "harness"), env=env2, stdout=subprocess.PIPE, stderr=subprocess.PIPE, text=True, errors="replace")
                    if "Undefined Behavior" not in p2.stderr:
                        # both aliasing models are experimental; Stacked Borrows is the interpreter's default and the unchanged
                        # tree is clean under it in every tier, so a report under it alone is counted (and labelled)
                        msg = "[Stacked Borrows only: the same run is accepted under Tree Borrows] " + msg
                if confirmed:
                    rep["violations"].append({"engine": "miri", "func": name, "replay": f"miri|{i}", "case": f"Miri while running: {name}", "expected": "no undefined behaviour", "observed": msg, "class": "miri-ub"})
                continue
            if rc != 0 or r is None:
                rep["machinery_errors"].append(f"Miri engine {name} failed (rc={rc}) without a UB report: {err[-600:]}")
                continue
            if not r.get("transitions"):
                rep["machinery_errors"].append(f"Miri engine #{i} ({name}) executed nothing (vacuous run)")
                continue
            miri_states += r.get("states", 0)
            miri_trans += r.get("transitions", 0)
            for v in r.get("violations", []):
                v = dict(v)
                v["class"] = "miri-functional"
                v["case"] = "[under Miri] " + v["case"]
                rep["violations"].append(v)
            rep["machinery_errors"] += r.get("machinery_errors", [])
    # ---- (3b) thorough: the generated destructure! / array-macro program families under Miri as well
    gen_miri = {}
    if deep:
        import gen_c15, gen_c11
        for mod, pid, prefix, shards in ((gen_c15, "C15", "c15", 6), (gen_c11, "C11", "c11", 8)):
            r0 = mod.run("quick", seed, drv)   # (re)generates and builds the workspace natively, excluding rejected programs
            if r0.get("machinery_errors"):
                rep["machinery_errors"] += r0["machinery_errors"]
                continue
            ws = os.path.join(e3.GEN, pid)
            menv = dict(os.environ, CARGO_NET_OFFLINE="true", CARGO_TARGET_DIR=os.path.join(ROOT, "target", "miri-gen"), MIRIFLAGS="-Zmiri-disable-isolation -Zmiri-ignore-leaks -Zmiri-symbolic-alignment-check", RUSTFLAGS="-Awarnings")
            def one(si):
                t = time.time()
                p = subprocess.run(["cargo", "+nightly", "miri", "run", "--offline", "-q", "-p", f"{prefix}_{si}"], cwd=ws, env=menv, stdout=subprocess.PIPE, stderr=subprocess.PIPE, text=True, errors="replace")
                return si, p.returncode, p.stdout, p.stderr, time.time() - t
            with concurrent.futures.ThreadPoolExecutor(8) as ex:
                for si, rc, out, err, secs in ex.map(one, range(shards)):
                    n = sum(1 for l in out.split("\n") if l.startswith("{"))
                    gen_miri[f"{prefix}_{si}"] = {"programs": n, "seconds": round(secs, 1), "exit": rc}
                    miri_trans += n
                    if "Undefined Behavior" in err:
                        msg = err[err.index("Undefined Behavior") - 7:][:2500]
                        rep["violations"].append({"engine": "miri", "func": f"generated {pid} programs", "replay": f"miri-gen|{prefix}_{si}", "case": f"Miri while running the generated {pid} program family (shard {si})",
                                                  "expected": "no undefined behaviour", "observed": msg, "class": "miri-ub"})
                    elif rc != 0:
                        rep["machinery_errors"].append(f"Miri on generated crate {prefix}_{si} failed (rc={rc}): {err[-500:]}")
    # ---- merge
    nth.join()
    if ("exit" in native or "exc" in native) and any(v.get("class") == "miri-ub" for v in rep["violations"]):
        # the native process died abnormally while the interpreter reports undefined behaviour on the same tree: a native
        # run that executes undefined behaviour may do anything (seed C01-13: exit 0 in one run, a silent exit 101 in the
        # next), so the interpreter's report is the verdict and the native stage contributes nothing
        rep["notes"].append("native oracle stage ended abnormally (" + str(native.get("exit", native.get("exc"))) + "); undefined behaviour is reported by the interpreter stage, which explains it")
        rep.setdefault("caps_hit", []).append("native oracle stage lost to undefined behaviour")
        rt = {}
    else:
        rt = native_result()
    for v in rt.get("violations", []):
        v = dict(v)
        v["class"] = "oracle"
        rep["violations"].append(v)
    rep["machinery_errors"] += rt.get("machinery_errors", [])
    rep["violations_total"] = len(rep["violations"])
    rep["overflow_classified"] = True
    sites = scan_unsafe()
    table = json.load(open(os.path.join(ROOT, "harness", "unsafe_sites.json")))
    unmapped = sorted(f for f in sites if f not in table)
    rep["states"] = int(rt.get("states", 0)) + miri_states + drivers
    rep["transitions"] = int(rt.get("transitions", 0)) + miri_trans + drivers
    rep["traces"] = miri_trans + int(rt.get("traces", 0))
    rep["evaluations"] = rep["transitions"]
    rep["distinct_nontrivial"] = int(rt.get("range_checks", 0)) + miri_trans
    rep["range_checks"] = rt.get("range_checks", 0)
    rep["utf8_checks"] = rt.get("utf8_checks", 0)
    rep["rule"] = ("three monitors over the other properties' explorations: (1) rustc const evaluation of the ctfe battery (const-fn drivers looping over small alphabets through every unsafe-backed safe function / macro; E0080 = violation); "
                   "(2) native: " + rt.get("rule", "") + "; (3) Miri: every bounded explorer of C02-C09, C15, C20 (thorough: also C12, C13, C16) plus a driver for maybe_uninit/manually_drop/ptr/nonnull/array macros/destructure!/DSL, at the reduced interpreter bound, one interpreter process per engine; a Stacked-Borrows report is re-run under Tree Borrows and labelled when only Stacked Borrows rejects; distinct_nontrivial = range checks + interpreted transitions")
    rep["bounds"] = f"ctfe: {drivers} const drivers; native: tier {tier}; Miri: {n_eng} engines at the {'deep' if deep else 'quick'} interpreter bound"
    rep["samples"] = ["ctfe: driver_slices / driver_strings / driver_chr / driver_slice_iters / driver_arrays / driver_destructure / driver_cstr / driver_parser"] + rt.get("samples", [])[:2] + [f"Miri: {k} ({v['seconds']}s)" for k, v in list(per_engine.items())[:4]]
    rep["notes"] += rt.get("notes", [])
    rep["extra"] = {"ctfe_drivers": drivers, "miri_engines": per_engine, "miri_states": miri_states, "miri_transitions": miri_trans, "native_states": rt.get("states", 0), "native_transitions": rt.get("transitions", 0),
                    "unsafe_sites": sum(sites.values()), "unsafe_files": len(sites), "unmapped_unsafe_sites": unmapped, "miri_generated_families": gen_miri, "total_s": round(time.time() - t0, 1)}
    rep["assumptions"] = ["Miri (nightly) models UB of the abstract machine for the executions the drivers produce; rustc's const evaluator likewise", "bounded: reduced bounds under the interpreter",
                          "rustc 1.95 / std as reference", "the harness itself contains no unsafe beyond ZST-free address arithmetic on usize, so memory errors can only originate in konst"]
    return rep
