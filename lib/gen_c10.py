"""C10 — iterator-DSL chains = the same std Iterator chains (E3).
Grammar-generated adapter chains x consumers, compiled by rustc, run on all small input arrays,
compared with the identical std chain written next to the macro call."""
import itertools, json, os, time
import e3

NSHARDS = 16

# ---------------------------------------------------------------- shapes and key expressions


def key(shape, e):
    """u32-valued, const-evaluable key of an item expression of the given shape"""
    if shape == "u16":
        return f"({e} as u32)"
    if shape == "&u16":
        return f"(*{e} as u32)"
    if shape == "char":
        return f"(({e} as u32) - 0x60)"
    if shape == "str":
        return f"({e}.len() as u32)"
    if shape == "slice":
        return f"({e}.len() as u32)"
    if shape[0] == "enum":
        return f"(({e}.0 as u32).wrapping_mul(31).wrapping_add({key(shape[1], e + '.1')}))"
    if shape[0] == "zip":
        return f"({key(shape[1], e + '.0')}.wrapping_mul(17).wrapping_add({key(shape[2], e + '.1')}))"
    raise ValueError(shape)


def tyname(shape):
    if shape == "u16":
        return "u16"
    if shape == "&u16":
        return "&u16"
    if shape == "char":
        return "char"
    if shape == "str":
        return "&str"
    if shape == "slice":
        return "&&[u16]"
    if shape[0] == "enum":
        return f"(usize, {tyname(shape[1])})"
    return f"({tyname(shape[1])}, {tyname(shape[2])})"


# ---------------------------------------------------------------- grammar

SOURCES = [
    # name, konst text, std text, reversed std text, shape, DE, ES, const-able source text (konst, std)
    ("slice", "xs", "xs.iter()", "xs.iter().rev()", "&u16", True, True),
    ("range", "a..b", "(a..b)", "(a..b).rev()", "u16", True, True),
    ("range_inc", "a..=b", "(a..=b)", "(a..=b).rev()", "u16", True, True),
    ("iter_copied", "konst::slice::iter_copied(xs)", "xs.iter().copied()", "xs.iter().copied().rev()", "u16", True, True),
    ("slice_iter_fn", "konst::slice::iter(xs)", "xs.iter()", "xs.iter().rev()", "&u16", True, True),
    # string iterators as DSL sources (items: char); `st` is a string built from the input array (a, b, c, f / ñ)
    ("chars", "konst::string::chars(st)", "st.chars()", "st.chars().rev()", "char", True, False),
    ("split", "konst::string::split(st, 'b')", "st.split('b')", "st.rsplit('b')", "str", True, False),
    # nested slices (with empty inner slices) for flatten(): [first half, [], second half, []]
    ("nested", "nested", "nested.iter().copied()", "nested.iter().copied().rev()", "slice", True, True),
]

ADAPTERS = ["map", "filter", "filter_map", "flat_map", "mapflatten", "copied", "enumerate", "rev",
            "skip0", "skip1", "skip3", "take0", "take2", "skip_while", "take_while", "zip_range", "zip_slice", "zip_from", "zip_short", "flatten"]

REVERSING_CONSUMERS = {"rfind", "rfold", "rposition"}
CONSUMERS = ["for_each", "all", "any", "count", "find", "find_map", "rfind", "fold", "rfold", "next", "nth0", "nth1", "nth4", "position", "rposition"]


class Chain:
    """tracks one adapter chain while it is being built: konst method list, std expression, hoisted expression, plain-enumerate expression"""

    def __init__(self, src):
        (self.src_name, self.k_src, self.s, self.h, self.shape, self.de, self.es) = src
        self.p = self.s          # std with plain .enumerate() (sanity of EnumInOrder)
        self.k = []              # konst adapter texts
        self.names = []
        self.reversed = False    # a reversing adapter was applied
        self.f7 = False          # take/skip/zip precedes the reversing method
        self.order_sensitive_seen = False
        self.has_from = False    # zip(100..) present (no next_back)
        self.typeable = True     # std reference type-checks
        self.konst_ok = True     # konst side expected to compile

    def clone(self):
        c = Chain.__new__(Chain)
        c.__dict__ = dict(self.__dict__)
        c.k = list(self.k)
        c.names = list(self.names)
        return c

    def apply(self, ad):
        """returns a new chain or None if the adapter cannot be applied (grammar level)"""
        c = self.clone()
        sh = c.shape
        c.names.append(ad)
        if ad == "rev":
            if c.reversed:
                return None  # double reversal is a C17 matter (must be rejected)
            c.k.append("rev()")
            if not c.de:
                c.typeable = False
            if c.has_from:
                c.konst_ok = False
            if c.order_sensitive_seen:
                c.f7 = True
            c.s = f"{c.s}.rev()"
            c.p = f"{c.p}.rev()"
            # hoisted: already built on the reversed source: nothing to add
            c.reversed = True
            return c
        vx = "x"
        if ad == "map":
            body = f"(({key(sh, vx)}.wrapping_mul(2).wrapping_add(1)) % 7) as u16"
            t = f"map(|x| {body})"
            c.k.append(t); c.s += f".{t}"; c.h += f".{t}"; c.p += f".{t}"
            c.shape = "u16"
        elif ad == "filter":
            t = f"filter(|x| {key(sh, '(*x)')} % 2 == 0)"
            c.k.append(t); c.s += f".{t}"; c.h += f".{t}"; c.p += f".{t}"
            c.es = False
        elif ad == "filter_map":
            t = f"filter_map(|x| if {key(sh, vx)} % 3 == 0 {{ None }} else {{ Some((({key(sh, vx)} + 10) % 50) as u16) }})"
            c.k.append(t); c.s += f".{t}"; c.h += f".{t}"; c.p += f".{t}"
            c.shape = "u16"; c.es = False
        elif ad == "flat_map":
            rng = f"(({key(sh, vx)} % 4) as u16)..((({key(sh, vx)} % 4) + ({key(sh, vx)} % 3)) as u16)"
            c.k.append(f"flat_map(|x| {rng})")
            c.s += f".flat_map(|x| {rng})"; c.p += f".flat_map(|x| {rng})"
            c.h += f".flat_map(|x| ({rng}).rev())" if not c.reversed else f".flat_map(|x| {rng})"
            c.shape = "u16"; c.es = False
        elif ad == "mapflatten":
            rng = f"(({key(sh, vx)} % 4) as u16)..((({key(sh, vx)} % 4) + ({key(sh, vx)} % 3)) as u16)"
            c.k.append(f"map(|x| {rng})"); c.k.append("flatten()")
            c.s += f".map(|x| {rng}).flatten()"; c.p += f".map(|x| {rng}).flatten()"
            c.h += f".map(|x| ({rng}).rev()).flatten()" if not c.reversed else f".map(|x| {rng}).flatten()"
            c.shape = "u16"; c.es = False
        elif ad == "copied":
            if sh != "&u16":
                return None
            c.k.append("copied()"); c.s += ".copied()"; c.h += ".copied()"; c.p += ".copied()"
            c.shape = "u16"
        elif ad == "enumerate":
            c.k.append("enumerate()")
            # documented exception: numbers from 0 in iteration order == EnumInOrder
            if not (c.de and c.es):
                pass  # std's Enumerate would not be double-ended, but EnumInOrder only needs DE for next_back
            c.s = f"eio({c.s})"; c.h = f"eio({c.h})"; c.p = f"{c.p}.enumerate()"
            c.shape = ("enum", sh)
            # Enumerate: DoubleEndedIterator needs ExactSize + DE in std; a later reversal is only type-correct then
            c.de = c.de and c.es
        elif ad.startswith("skip") and ad[4:].isdigit():
            n = ad[4:]
            c.k.append(f"skip({n})"); c.s += f".skip({n})"; c.h += f".skip({n})"; c.p += f".skip({n})"
            c.de = c.de and c.es
            if not c.reversed:
                c.order_sensitive_seen = True
        elif ad.startswith("take") and ad[4:].isdigit():
            n = ad[4:]
            c.k.append(f"take({n})"); c.s += f".take({n})"; c.h += f".take({n})"; c.p += f".take({n})"
            c.de = c.de and c.es
            if not c.reversed:
                c.order_sensitive_seen = True
        elif ad == "skip_while":
            t = f"skip_while(|x| {key(sh, '(*x)')} < 2)"
            c.k.append(t); c.s += f".{t}"; c.h += f".{t}"; c.p += f".{t}"
            c.de = False; c.es = False
            if not c.reversed:
                c.order_sensitive_seen = True
        elif ad == "take_while":
            t = f"take_while(|x| {key(sh, '(*x)')} < 4)"
            c.k.append(t); c.s += f".{t}"; c.h += f".{t}"; c.p += f".{t}"
            c.de = False; c.es = False
            if not c.reversed:
                c.order_sensitive_seen = True
        elif ad == "zip_range":
            c.k.append("zip(10u16..13)"); c.s += ".zip(10u16..13)"; c.p += ".zip(10u16..13)"
            c.h += ".zip((10u16..13).rev())" if not c.reversed else ".zip(10u16..13)"
            c.shape = ("zip", sh, "u16")
            c.de = c.de and c.es
            if not c.reversed:
                c.order_sensitive_seen = True
        elif ad == "zip_slice":
            c.k.append("zip(&ZS)"); c.s += ".zip(ZS.iter())"; c.p += ".zip(ZS.iter())"
            c.h += ".zip(ZS.iter().rev())" if not c.reversed else ".zip(ZS.iter())"
            c.shape = ("zip", sh, "&u16")
            c.de = c.de and c.es
            if not c.reversed:
                c.order_sensitive_seen = True
        elif ad == "zip_short":
            c.k.append("zip(20u16..21)"); c.s += ".zip(20u16..21)"; c.p += ".zip(20u16..21)"
            c.h += ".zip((20u16..21).rev())" if not c.reversed else ".zip(20u16..21)"
            c.shape = ("zip", sh, "u16")
            c.de = c.de and c.es
            if not c.reversed:
                c.order_sensitive_seen = True
        elif ad == "flatten":
            if sh != "slice":
                return None
            c.k.append("flatten()"); c.s += ".flatten()"; c.p += ".flatten()"
            c.h += ".map(|x| x.iter().rev()).flatten()" if not c.reversed else ".flatten()"
            c.shape = "&u16"; c.es = False
        elif ad == "zip_from":
            c.k.append("zip(100u16..)"); c.s += ".zip(100u16..)"; c.p += ".zip(100u16..)"
            c.h += ".zip(100u16..)"
            c.shape = ("zip", sh, "u16")
            c.de = False; c.es = False
            if not c.reversed:
                c.has_from = True
                c.order_sensitive_seen = True
        else:
            raise ValueError(ad)
        return c


def chains(depth):
    """all chains of exactly 0..=depth adapters for every source"""
    out = []
    for src in SOURCES:
        level = [Chain(src)]
        out.extend(level)
        for _ in range(depth):
            nxt = []
            for c in level:
                for ad in ADAPTERS:
                    n = c.apply(ad)
                    if n is not None:
                        nxt.append(n)
            out.extend(nxt)
            level = nxt
    return out


def consumer_code(c, cons):
    """returns (konst_expr, std_expr, hoisted_expr_or_None, typeable, konst_ok, f7_candidate) rendering a String"""
    sh = c.shape
    kx = ", ".join([c.k_src] + c.k)
    f7 = c.f7
    typeable, konst_ok = c.typeable, c.konst_ok
    reversing = cons in REVERSING_CONSUMERS
    if reversing:
        if c.reversed:
            return None  # second reversal: C17
        if not c.de:
            typeable = False
        if c.has_from:
            konst_ok = False
        if c.order_sensitive_seen:
            f7 = True
    hoist = c.h if (c.reversed or reversing) else None
    kv = key(sh, "x")
    kr = key(sh, "(*x)")
    if cons == "for_each":
        k = f"{{ let mut out = Vec::new(); konst::iter::for_each!{{x in {kx} => out.push(x); }} format!(\"{{:?}}\", out) }}"
        s = f"format!(\"{{:?}}\", {c.s}.collect::<Vec<_>>())"
        h = f"format!(\"{{:?}}\", {hoist}.collect::<Vec<_>>())" if hoist else None
        return k, s, h, typeable, konst_ok, f7
    table = {
        "all": (f"all(|x| {kv} < 5)",) * 2,
        "any": (f"any(|x| {kv} == 2)",) * 2,
        "count": ("count()",) * 2,
        "find": (f"find(|x| {kr} % 2 == 1)",) * 2,
        "find_map": (f"find_map(|x| if {kv} % 2 == 1 {{ Some({kv} + 100) }} else {{ None }})",) * 2,
        "rfind": (f"rfind(|x| {kr} % 2 == 1)", f"find(|x| {kr} % 2 == 1)"),
        "fold": (f"fold(0u32, |acc, x| acc.wrapping_mul(3).wrapping_add({kv}))",) * 2,
        "rfold": (f"rfold(0u32, |acc, x| acc.wrapping_mul(3).wrapping_add({kv}))", f"fold(0u32, |acc, x| acc.wrapping_mul(3).wrapping_add({kv}))"),
        "next": ("next()",) * 2,
        "nth0": ("nth(0)",) * 2, "nth1": ("nth(1)",) * 2, "nth4": ("nth(4)",) * 2,
        "position": (f"position(|x| {kv} == 2)",) * 2,
        # documented exception: rposition counts from the back == rev().position()
        "rposition": (f"rposition(|x| {kv} == 2)", f"position(|x| {kv} == 2)"),
    }
    kc, fwd = table[cons]
    k = f"format!(\"{{:?}}\", konst::iter::eval!({kx}, {kc}))"
    if cons == "rposition":
        s = f"format!(\"{{:?}}\", {c.s}.rev().{fwd})"
    else:
        s = f"format!(\"{{:?}}\", {c.s}.{kc})"
    h = f"format!(\"{{:?}}\", {hoist}.{fwd})" if hoist else None
    return k, s, h, typeable, konst_ok, f7


SUPPORT = r'''
#![allow(unused, clippy::all)]
use std::panic::{catch_unwind, AssertUnwindSafe};

pub static ZS: [u16; 3] = [7, 8, 9];

/// `enumerate` that numbers items from 0 in the order they are pulled (from either end):
/// exactly the documented behaviour "always counts from 0, regardless of whether the iterator is reversed".
#[derive(Clone)]
pub struct EnumInOrder<I> { it: I, n: usize }
pub fn eio<I: Iterator>(it: I) -> EnumInOrder<I> { EnumInOrder { it, n: 0 } }
impl<I: Iterator> Iterator for EnumInOrder<I> {
    type Item = (usize, I::Item);
    fn next(&mut self) -> Option<Self::Item> { let x = self.it.next()?; let i = self.n; self.n += 1; Some((i, x)) }
    fn size_hint(&self) -> (usize, Option<usize>) { self.it.size_hint() }
}
impl<I: DoubleEndedIterator> DoubleEndedIterator for EnumInOrder<I> {
    fn next_back(&mut self) -> Option<Self::Item> { let x = self.it.next_back()?; let i = self.n; self.n += 1; Some((i, x)) }
}
impl<I: ExactSizeIterator> ExactSizeIterator for EnumInOrder<I> {}

pub fn cu(f: impl FnOnce() -> String) -> String {
    match catch_unwind(AssertUnwindSafe(f)) {
        Ok(s) => s,
        Err(e) => format!("panic: {}", e.downcast_ref::<&str>().map(|s| s.to_string()).or_else(|| e.downcast_ref::<String>().cloned()).unwrap_or_default()),
    }
}
pub fn ab(xs: &[u16]) -> (u16, u16) { (xs.first().copied().unwrap_or(0), xs.get(1).copied().unwrap_or(3)) }

pub struct Res { pub k: String, pub s: String, pub h: Option<String>, pub p: Option<String> }
pub struct Prog { pub id: u32, pub f7: bool, pub f: fn(&[u16]) -> Res }

pub fn inputs(alpha: &[u16], maxlen: usize) -> Vec<Vec<u16>> {
    let mut out = vec![vec![]];
    let mut level: Vec<Vec<u16>> = vec![vec![]];
    for _ in 0..maxlen {
        let mut next = Vec::new();
        for s in &level { for a in alpha { let mut t = s.clone(); t.push(*a); next.push(t); } }
        out.extend(next.iter().cloned());
        level = next;
    }
    out
}

pub fn js(x: &str) -> String {
    let mut s = String::with_capacity(x.len() + 2);
    s.push('"');
    for c in x.chars() {
        match c {
            '"' => s.push_str("\\\""),
            '\\' => s.push_str("\\\\"),
            '\n' => s.push_str("\\n"),
            '\r' => s.push_str("\\r"),
            '\t' => s.push_str("\\t"),
            c if (c as u32) < 0x20 || c as u32 == 0x7F => s.push_str(&format!("\\u{:04x}", c as u32)),
            c => s.push(c),
        }
    }
    s.push('"');
    s
}


pub fn run(progs: &[Prog]) {
    std::panic::set_hook(Box::new(|_| {}));
    let args: Vec<String> = std::env::args().collect();
    let alpha: Vec<u16> = args[1].split(',').map(|x| x.parse().unwrap()).collect();
    let maxlen: usize = args[2].parse().unwrap();
    let only: Option<u32> = args.get(3).and_then(|x| x.parse().ok());
    let ins = inputs(&alpha, maxlen);
    for p in progs {
        if let Some(o) = only { if o != p.id { continue; } }
        let (mut bad, mut known, mut enum_bad) = (0u32, 0u32, 0u32);
        let mut first_bad = String::new();
        let mut first_known = String::new();
        let mut outcomes = std::collections::HashSet::new();
        for xs in &ins {
            let r = (p.f)(xs);
            outcomes.insert(r.k.clone());
            if let Some(pl) = &r.p { if *pl != r.s { enum_bad += 1; } }
            if r.k != r.s {
                if p.f7 && r.h.as_deref() == Some(r.k.as_str()) {
                    known += 1;
                    if first_known.is_empty() { first_known = format!("{{\"input\":{:?},\"konst\":{},\"std\":{}}}", xs, js(&r.k), js(&r.s)); }
                } else {
                    bad += 1;
                    if first_bad.is_empty() { first_bad = format!("{{\"input\":{:?},\"konst\":{},\"std\":{},\"hoisted\":{}}}", xs, js(&r.k), js(&r.s), js(r.h.as_deref().unwrap_or("-"))); }
                }
            }
        }
        println!("{{\"id\":{},\"n\":{},\"bad\":{},\"known\":{},\"enum_bad\":{},\"outcomes\":{},\"first_bad\":{},\"first_known\":{}}}",
            p.id, ins.len(), bad, known, enum_bad, outcomes.len(),
            if first_bad.is_empty() { "null".to_string() } else { first_bad }, if first_known.is_empty() { "null".to_string() } else { first_known });
    }
}
'''


def build_programs(tier):
    depth_a = {"quick": 2, "thorough": 3}[tier]
    depth_b = {"quick": 1, "thorough": 2}[tier]
    progs = []  # dict(id, set, desc, k, s, h, p, typeable, konst_ok, f7)
    stats = {"skipped_untypeable": 0, "generated": 0}

    def add(setname, c, cons):
        r = consumer_code(c, cons)
        if r is None:
            return
        k, s, h, typeable, konst_ok, f7 = r
        if not typeable:
            stats["skipped_untypeable"] += 1
            return
        desc = f"{c.k_src}, " + ", ".join(c.k + [cons])
        rev_any = c.reversed or cons in REVERSING_CONSUMERS
        plain = None
        if cons == "for_each" and "enumerate" in c.names and not rev_any:
            plain = f"format!(\"{{:?}}\", {c.p}.collect::<Vec<_>>())"
        progs.append(dict(set=setname, desc=desc, k=k, s=s, h=h, p=plain, konst_ok=konst_ok, f7=f7, names=c.names + [cons], src=c.src_name))

    for c in chains(depth_a):
        add("A", c, "for_each")
    if tier == "quick":
        # counters of stateful adapters on both sides of a nested (flat_map / flatten) loop: (stateful, nesting, stateful)
        stateful = ["skip1", "take2", "enumerate", "skip_while", "take_while", "zip_range", "filter_map"]
        nesting = ["flat_map", "mapflatten"]
        for src in SOURCES:
            if src[0] not in ("slice", "range"):
                continue
            for a1 in stateful:
                c1 = Chain(src).apply(a1)
                for nf in nesting:
                    c2 = c1.apply(nf) if c1 is not None else None
                    if c2 is None:
                        continue
                    for cons in CONSUMERS[1:]:
                        add("B2nest", c2, cons)
                    for a2 in stateful:
                        c3 = c2.apply(a2)
                        if c3 is not None:
                            add("A3nest", c3, "for_each")
        # reversal interplay is where order bugs live: all depth-3 chains containing rev(), for the slice and range sources
        for c in chains(3):
            if len(c.names) == 3 and "rev" in c.names and c.src_name in ("slice", "range"):
                add("A3rev", c, "for_each")
    for c in chains(depth_b):
        for cons in CONSUMERS[1:]:
            add("B", c, cons)
    for i, p in enumerate(progs):
        p["id"] = i
    stats["generated"] = len(progs)
    return progs, stats


def render(progs):
    shards = [[] for _ in range(NSHARDS)]
    for p in progs:
        shards[p["id"] % NSHARDS].append(p)
    crates = {}
    linemap = {}
    for si, sh in enumerate(shards):
        name = f"c10_{si}"
        lines = ["#![allow(unused, clippy::all)]", "mod support;", "use support::*;", ""]
        for p in sh:
            start = len(lines) + 1
            lines.append(f"// {p['desc']}")
            lines.append(f"fn p{p['id']}(xs: &[u16]) -> Res {{")
            lines.append("    let (a, b) = ab(xs);")
            lines.append("    let st_owned: String = xs.iter().map(|x| char::from(b'a' + (*x as u8))).collect(); let st: &str = &st_owned;")
            lines.append("    let nested_owned: Vec<&[u16]> = vec![&xs[..xs.len() / 2], &[], &xs[xs.len() / 2..], &[]]; let nested: &[&[u16]] = &nested_owned;")
            lines.append(f"    let k = cu(|| {p['k']});")
            lines.append(f"    let s = cu(|| {p['s']});")
            lines.append(f"    let h = {('Some(cu(|| ' + p['h'] + '))') if p['h'] else 'None'};")
            lines.append(f"    let p = {('Some(cu(|| ' + p['p'] + '))') if p['p'] else 'None'};")
            lines.append("    Res { k, s, h, p }")
            lines.append("}")
            linemap[(name, p["id"])] = (start, len(lines))
        lines.append("static PROGS: &[Prog] = &[")
        for p in sh:
            lines.append(f"    Prog {{ id: {p['id']}, f7: {'true' if p['f7'] else 'false'}, f: p{p['id']} }},")
        lines.append("];")
        lines.append("fn main() { run(PROGS); }")
        crates[name] = {"src/main.rs": "\n".join(lines) + "\n", "src/support.rs": SUPPORT}
    return crates, linemap


# ---------------------------------------------------------------- set C: collect_const! in const context

CONST_INPUTS = [[], [2], [0, 1, 2, 5], [5, 3, 1, 2, 0]]


def build_const_programs(tier):
    depth = {"quick": 1, "thorough": 2}[tier]
    out = []
    srcs = [s for s in SOURCES if s[0] in ("slice", "range", "range_inc")]
    for src in srcs:
        level = [Chain(src)]
        allc = list(level)
        for _ in range(depth):
            nxt = [n for c in level for ad in ADAPTERS if (n := c.apply(ad)) is not None]
            allc.extend(nxt)
            level = nxt
        for c in allc:
            if not c.typeable or not c.konst_ok or c.has_from:
                continue  # zip(100..) without a bound would not terminate in collect
            out.append(c)
    return out


def render_const(chs, skip=frozenset()):
    """one crate; every (chain, input) is its own const item; main compares with std at run time.
    Chains whose index is in `skip` (already rejected by rustc) are left out without touching konst at all."""
    lines = ["#![allow(unused, clippy::all, long_running_const_eval)]", "mod support;", "use support::*;", ""]
    for i, xs in enumerate(CONST_INPUTS):
        lines.append(f"const IN{i}: [u16; {len(xs)}] = {xs};")
        a, b = (xs[0] if xs else 0), (xs[1] if len(xs) > 1 else 3)
        lines.append(f"const A{i}: u16 = {a}; const B{i}: u16 = {b};")
    lines.append("const ZS_C: [u16; 3] = [7, 8, 9];")
    linemap = {}
    items = []
    for ci, c in enumerate(chs):
        for ii in range(len(CONST_INPUTS)):
            ksrc = {"slice": f"&IN{ii}", "range": f"A{ii}..B{ii}", "range_inc": f"A{ii}..=B{ii}"}[c.src_name]
            kx = ", ".join([ksrc] + [t.replace("&ZS", "&ZS_C") for t in c.k])
            start = len(lines) + 1
            if ci in skip:
                continue
            lines.append(f"const K{ci}_{ii}: &[{tyname(c.shape)}] = &konst::iter::collect_const!({tyname(c.shape)} => {kx});")
            linemap[(ci, ii)] = start
            items.append((ci, ii))
    lines.append("fn main() {")
    lines.append("    std::panic::set_hook(Box::new(|_| {}));")
    for ci, c in enumerate(chs):
        for ii in range(len(CONST_INPUTS)):
            if ci in skip:
                continue
            sub = lambda t: t.replace("xs.iter()", f"IN{ii}.iter()").replace("(a..b)", f"(A{ii}..B{ii})").replace("(a..=b)", f"(A{ii}..=B{ii})")
            s = sub(c.s)
            # h: the reverse-hoisted model (finding F7), only consulted when the chain is F7-shaped and disagrees with std
            h = f"cu(|| format!(\"{{:?}}\", {sub(c.h)}.collect::<Vec<_>>()))" if c.f7 else "String::new()"
            lines.append(f"    {{ let k = format!(\"{{:?}}\", K{ci}_{ii}); let s = cu(|| format!(\"{{:?}}\", {s}.collect::<Vec<_>>())); let h = {h}; println!(\"{{{{\\\"c\\\":{ci},\\\"i\\\":{ii},\\\"ok\\\":{{}},\\\"hoisted\\\":{{}},\\\"k\\\":{{:?}},\\\"s\\\":{{:?}}}}}}\", k == s, k == h, k, s); }}")
    lines.append("}")
    return {"c10_const": {"src/main.rs": "\n".join(lines) + "\n", "src/support.rs": SUPPORT}}, linemap


def const_family(ws_tag, chains, shard=None):
    """collect_const! over the given chains x CONST_INPUTS in its own workspace (sharded over several crates so that
    rustc's const evaluator runs in parallel): iterated discovery of rejected items, build, run, classify.
    Returns (violations, evaluated item count, machinery errors, F7-shaped known count)."""
    ok_chain = Chain(SOURCES[0])
    mach, viol = [], []
    const_rejected = {}
    cur = list(chains)
    if shard is None:
        shard = max(20, (len(chains) + 15) // 16)  # about one crate per core: const evaluation happens at compile time
    nshards = max(1, (len(chains) + shard - 1) // shard)

    def render_all(chs, bad=frozenset()):
        crates, lm = {}, {}
        for si in range(nshards):
            sub = chs[si * shard:(si + 1) * shard]
            cr, l = render_const(sub, skip={ci - si * shard for ci in bad if si * shard <= ci < (si + 1) * shard})
            crates[f"kc_{si}"] = cr["c10_const"]
            for (ci, ii), ln in l.items():
                lm[(f"kc_{si}", ln)] = (si * shard + ci, ii)
        return crates, lm

    bad_ci = set()
    for _round in range(6):
        crates, clinemap = render_all(chains, bad_ci)
        ws = e3.write_workspace(ws_tag, crates)
        errors, seen, rc, err = e3.check_json(ws)
        before = len(const_rejected)
        for tgt, errs in errors.items():
            for e in errs:
                hit = False
                for (f, line) in e["spans"]:
                    if f.endswith(f"{tgt}/src/main.rs") and (tgt, line) in clinemap:
                        const_rejected[clinemap[(tgt, line)]] = e["msg"]; hit = True
                if not hit and e["msg"] and "aborting" not in e["msg"] and "could not compile" not in e["msg"]:
                    mach.append(f"unattributed compiler error in {tgt}: {e['msg'][:300]} {e['spans'][:3]}")
        if mach or len(const_rejected) == before:
            break
        bad_ci = {ci for (ci, ii) in const_rejected}
    if mach:
        return viol, 0, mach, 0
    bad_ci = {ci for (ci, ii) in const_rejected}
    crates, clinemap = render_all(chains, bad_ci)
    ws = e3.write_workspace(ws_tag, crates)
    rcode, out, errtxt = e3.cargo(ws, ["build", "-q"])
    if rcode != 0:
        return viol, 0, [f"generated {ws_tag} workspace does not build after removing rejected items: " + errtxt[-1500:]], 0
    results = []
    for si in range(nshards):
        rc3, o3, e3txt = e3.run_bin(ws, f"kc_{si}")
        if rc3 != 0:
            return viol, 0, [f"runner kc_{si} of {ws_tag} failed: {e3txt[-500:]}"], 0
        for l in o3.split("\n"):
            if l.startswith("{"):
                r = json.loads(l)
                r["c"] += si * shard
                results.append(r)
    for (ci, ii), msg in const_rejected.items():
        c = chains[ci]
        viol.append({"engine": "dsl", "func": "collect_const", "replay": f"const|{ci}|{ii}", "case": f"collect_const!({c.k_src}, {', '.join(c.k)}) on const input #{ii} {CONST_INPUTS[ii]}",
                     "expected": "compiles and equals Iterator::collect", "observed": "rejected / const-eval error: " + msg[:300], "class": "rejected", "program": ", ".join(c.k)})
    known = 0
    bad_ci = {ci for (ci, ii) in const_rejected}
    for r in results:
        if r["ok"] or r["c"] in bad_ci:
            continue
        c = chains[r["c"]]
        k = bool(c.f7 and r.get("hoisted"))
        known += 1 if k else 0
        viol.append({"engine": "dsl", "func": "collect_const", "replay": f"const|{r['c']}|{r['i']}", "case": f"collect_const!({c.k_src}, {', '.join(c.k)}) on const input {CONST_INPUTS[r['i']]}",
                     "expected": r["s"], "observed": r["k"], "class": "reverse-hoisted" if k else "mismatch", "program": ", ".join(c.k)})
    return viol, len(results), mach, known


def direction_chains(tier):
    """collect_const! chains that exercise how the iteration direction reaches every adapter: all chains of <= 2 of the
    direction-sensitive adapters, plus every 3-chain (thorough: 4-chain) over the core ones that contains rev()"""
    D = ["map", "filter", "enumerate", "rev", "skip1", "take2", "zip_range", "zip_slice", "flat_map", "mapflatten"]
    core = ["rev", "zip_range", "flat_map", "take2", "enumerate", "skip1"]
    out = []
    for src in [s for s in SOURCES if s[0] in ("slice", "range", "range_inc")]:
        level = [Chain(src)]
        allc = list(level)
        for _ in range(2):
            level = [n for c in level for ad in D if (n := c.apply(ad)) is not None]
            allc.extend(level)
        deep = [Chain(src)]
        for d in range({"quick": 3, "thorough": 4}[tier]):
            deep = [n for c in deep for ad in core if (n := c.apply(ad)) is not None]
            if d >= 2:
                allc.extend(c for c in deep if "rev" in c.names)
        if src[0] == "slice":
            # stateful adapters on both sides of a flattening adapter (their counters must not be shared): 3-chains over the
            # core adapters that contain flat_map but no rev (the rev ones are above), slice source only
            lvl = [Chain(src)]
            for d in range(3):
                lvl = [n for c in lvl for ad in core if (n := c.apply(ad)) is not None]
            allc.extend(c for c in lvl if "flat_map" in c.names and "rev" not in c.names)
        out.extend(c for c in allc if c.typeable and c.konst_ok and not c.has_from)
    return out


# ---------------------------------------------------------------- driver


def run(tier, seed, drv):
    t0 = time.time()
    rep = {"violations": [], "violations_total": 0, "notes": [], "machinery_errors": [], "samples": [], "nontrivial_samples": []}
    progs, stats = build_programs(tier)
    crates, linemap = render(progs)
    cchains = build_const_programs(tier)
    cchains_ok = Chain(SOURCES[0])
    ccrates, clinemap = render_const(cchains)
    crates.update(ccrates)
    ws = e3.write_workspace("C10", crates)
    byid = {p["id"]: p for p in progs}

    # ---- phase A: which programs does rustc reject? (iterated: errors of an early compiler phase hide later ones)
    rejected = {}   # prog id -> message
    const_rejected = {}
    for _round in range(5):
      errors, seen, rc, err = e3.check_json(ws)
      new_rej = 0
      before = (len(rejected), len(const_rejected))
      for tgt, errs in errors.items():
          for e in errs:
              hit = False
              for (f, line) in e["spans"]:
                  if not f.endswith(f"{tgt}/src/main.rs"):
                      continue
                  if tgt == "c10_const":
                      for (ci, ii), ln in clinemap.items():
                          if ln == line:
                              const_rejected[(ci, ii)] = e["msg"]; hit = True
                  else:
                      for (name, pid), (a, b) in linemap.items():
                          if name == tgt and a <= line <= b:
                              rejected.setdefault(pid, e["msg"]); hit = True
              if not hit and e["msg"] and "aborting" not in e["msg"] and "could not compile" not in e["msg"]:
                  rep["machinery_errors"].append(f"unattributed compiler error in {tgt}: {e['msg'][:300]} {e['spans'][:3]}")

      if rep["machinery_errors"] or (len(rejected), len(const_rejected)) == before:
          break
      # rebuild the sources without what was rejected so far and look again
      progs_r = [p for p in progs if p["id"] not in rejected]
      crates, linemap = render(progs_r)
      bad_ci = {ci for (ci, ii) in const_rejected}
      # const indices stay stable for attribution: rejected chains are left out of the rendering, not renumbered
      ccrates, clinemap = render_const(cchains, skip=bad_ci)
      crates.update(ccrates)
      ws = e3.write_workspace("C10", crates)
    if rep["machinery_errors"]:
        return rep
    unexpected_rej = [pid for pid in rejected if byid[pid]["konst_ok"]]
    expected_rej = [pid for pid in rejected if not byid[pid]["konst_ok"]]
    not_rejected_but_expected = [p["id"] for p in progs if not p["konst_ok"] and p["id"] not in rejected]
    # rebuild without the rejected programs
    cch2 = cchains
    if rejected or const_rejected:
        progs2 = [p for p in progs if p["id"] not in rejected]
        crates, linemap = render(progs2)
        bad_ci = {ci for (ci, ii) in const_rejected}
        ccrates, _ = render_const(cchains, skip=bad_ci)
        crates.update(ccrates)
        ws = e3.write_workspace("C10", crates)
    rcode, out, errtxt = e3.cargo(ws, ["build", "-q"])
    if rcode != 0:
        rep["machinery_errors"].append("generated C10 workspace does not build after removing rejected programs: " + errtxt[-1500:])
        return rep

    # ---- phase B: run
    alpha, maxlen = {"quick": ("0,1,2,5", 3), "thorough": ("0,1,2,3,5", 4)}[tier]
    results = {}
    import concurrent.futures
    def runshard(si):
        return e3.run_bin(ws, f"c10_{si}", [alpha, str(maxlen)])
    with concurrent.futures.ThreadPoolExecutor(NSHARDS) as ex:
        for si, (rc2, o, e) in enumerate(ex.map(runshard, range(NSHARDS))):
            if rc2 != 0:
                rep["machinery_errors"].append(f"runner c10_{si} failed: rc={rc2} {e[-500:]}")
                continue
            for line in o.split("\n"):
                if line.startswith("{"):
                    r = json.loads(line)
                    results[r["id"]] = r
    rc3, o3, e3txt = e3.run_bin(ws, "c10_const")
    const_results = [json.loads(l) for l in o3.split("\n") if l.startswith("{")] if rc3 == 0 else []
    if rc3 != 0:
        rep["machinery_errors"].append(f"runner c10_const failed: {e3txt[-500:]}")
    if rep["machinery_errors"]:
        return rep

    n_inputs = next(iter(results.values()))["n"] if results else 0
    evaluations = sum(r["n"] for r in results.values()) + len(const_results)
    nontrivial = sum(1 for r in results.values() if r["outcomes"] > 1)
    known_progs = [r for r in results.values() if r["known"] > 0]
    viol = []
    for r in results.values():
        p = byid[r["id"]]
        if r["enum_bad"]:
            rep["machinery_errors"].append(f"EnumInOrder reference differs from std enumerate() on a chain without reversal: {p['desc']}")
        if r["bad"]:
            fb = r["first_bad"]
            viol.append({"engine": "dsl", "func": p["names"][-1], "replay": f"prog|{r['id']}", "case": f"eval/for_each!({p['desc']}) on input {fb['input']}",
                         "expected": fb["std"], "observed": fb["konst"], "class": "mismatch", "program": p["desc"], "bad_inputs": r["bad"]})
    for pid in unexpected_rej:
        p = byid[pid]
        viol.append({"engine": "dsl", "func": "compile", "replay": f"prog|{pid}", "case": f"eval/for_each!({p['desc']})", "expected": "compiles (the same std chain type-checks)",
                     "observed": "rejected by rustc: " + rejected[pid][:300], "class": "rejected", "program": p["desc"]})
    for (ci, ii), msg in const_rejected.items():
        c = cchains[ci]
        viol.append({"engine": "dsl", "func": "collect_const", "replay": f"const|{ci}|{ii}", "case": f"collect_const!({c.k_src}, {', '.join(c.k)}) on const input #{ii} {CONST_INPUTS[ii]}",
                     "expected": "compiles and equals Iterator::collect", "observed": "rejected / const-eval error: " + msg[:300], "class": "rejected", "program": ", ".join(c.k)})
    cknown = 0
    for r in const_results:
        if not r["ok"]:
            c = cch2[r["c"]]
            if any(ci == r["c"] for (ci, ii) in const_rejected):
                continue  # placeholder standing in for a rejected chain
            known = c.f7 and r.get("hoisted")
            cknown += 1 if known else 0
            viol.append({"engine": "dsl", "func": "collect_const", "replay": f"const|{r['c']}|{r['i']}", "case": f"collect_const!({c.k_src}, {', '.join(c.k)}) on const input {CONST_INPUTS[r['i']]}",
                         "expected": r["s"], "observed": r["k"], "class": "reverse-hoisted" if known else "mismatch", "program": ", ".join(c.k)})
    # known finding F7: reported through known_findings.json (the matcher is behavioural: output == reverse-hoisted model)
    for r in known_progs:
        p = byid[r["id"]]
        fk = r["first_known"]
        viol.append({"engine": "dsl", "func": p["names"][-1], "replay": f"prog|{r['id']}", "case": f"eval/for_each!({p['desc']}) on input {fk['input']}",
                     "expected": fk["std"], "observed": fk["konst"], "class": "reverse-hoisted", "program": p["desc"], "known_inputs": r["known"]})
    rep["violations"] = viol
    rep["violations_total"] = len(viol)
    rep["overflow_classified"] = True
    rep["states"] = len(results) + len(const_results)
    rep["transitions"] = evaluations
    rep["traces"] = evaluations
    rep["evaluations"] = evaluations
    rep["distinct_nontrivial"] = nontrivial
    rep["distinct_outcomes"] = sum(r["outcomes"] for r in results.values())
    rep["rule"] = ("program = (source, adapter chain, consumer) generated from the method grammar; only chains whose std reference type-checks are generated (DoubleEnded/ExactSize tracked); every accepted program is executed on every input array next to the identical std chain (enumerate -> EnumInOrder, rposition -> rev().position()); a mismatch whose output equals the reverse-hoisted model while take/skip/zip precedes the reversal is finding F7, anything else (incl. an unexpected rejection by rustc) is a violation; non-trivial = programs whose output differs between inputs")
    rep["bounds"] = f"set A: all chains of <= {dict(quick=2, thorough=3)[tier]} adapters x for_each! (quick adds every 3-adapter chain containing rev(), and every (stateful, flat_map|flatten, stateful) chain plus (stateful, flat_map|flatten) x every consumer, for the slice and range sources); set B: chains of <= {dict(quick=1, thorough=2)[tier]} adapters x 14 consumers; set C: collect_const! chains of <= {dict(quick=1, thorough=2)[tier]} adapters x {len(CONST_INPUTS)} const inputs; 8 sources (incl. string::chars / string::split and nested slices for flatten), 20 adapter instances; run-time inputs: all arrays over {{{alpha}}} of length <= {maxlen} ({n_inputs})"
    rep["samples"] = [p["desc"] for p in progs[:3]] + [progs[len(progs) // 2]["desc"], progs[-1]["desc"]]
    rep["nontrivial_samples"] = [byid[r["id"]]["desc"] for r in list(results.values())[:400] if r["outcomes"] > 3][:5]
    rep["extra"] = {"programs": len(progs) + len(cchains) * len(CONST_INPUTS), "rejected_by_rustc_expected": len(expected_rej), "rejected_by_rustc_unexpected": len(unexpected_rej) + len(const_rejected),
                    "expected_rejections_that_compiled": len(not_rejected_but_expected), "skipped_untypeable": stats["skipped_untypeable"],
                    "f7_programs": len(known_progs), "f7_const_programs": cknown, "disagreements_checked": len(viol), "gen_s": round(time.time() - t0, 1)}
    return rep


def replay(v):
    pid = "C10"
    print("replay: re-run `./check C10 --tier quick` (programs are regenerated deterministically); recorded case:")
    print(" ", v.get("case"), "expected", v.get("expected"), "observed", v.get("observed"))
    return 0
