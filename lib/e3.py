"""E3: program-space exploration. Python generates finite families of macro programs from a grammar,
the real rustc compiles them against /repo's working tree, the accepted ones are executed on an
exhaustive input set next to the same computation written with std. Shared infrastructure."""
import json, os, re, shutil, subprocess, sys, time, importlib

ROOT = os.path.dirname(os.path.dirname(os.path.abspath(__file__)))
GEN = os.path.join(ROOT, "generated")
TARGET = os.path.join(ROOT, "target", "gen")
ENV = dict(os.environ, CARGO_NET_OFFLINE="true", CARGO_TARGET_DIR=TARGET, RUST_BACKTRACE="0", RUSTFLAGS="-Awarnings")

KONST_DEP = 'konst = { path = "/repo/konst", features = ["rust_1_83", "alloc"] }\nkonst_kernel = { path = "/repo/konst_kernel", features = ["__verif"] }\n'

WS_TOML = """[workspace]
members = [%s]
resolver = "2"

[profile.dev]
opt-level = 0
debug = false
incremental = false
debug-assertions = true
overflow-checks = true
codegen-units = 4
"""


def machinery(msg):
    print(f"MACHINERY-ERROR: {msg}", flush=True)
    sys.exit(2)


def write_workspace(pid, crates):
    """crates: {crate_name: {relpath: content}}; returns workspace dir. Only rewrites files whose content changed."""
    ws = os.path.join(GEN, pid)
    os.makedirs(ws, exist_ok=True)
    want = set()

    def put(rel, content):
        p = os.path.join(ws, rel)
        want.add(os.path.normpath(p))
        os.makedirs(os.path.dirname(p), exist_ok=True)
        if os.path.exists(p) and open(p).read() == content:
            return
        open(p, "w").write(content)

    put("Cargo.toml", WS_TOML % ", ".join(f'"{c}"' for c in sorted(crates)))
    lock = open("/repo/Cargo.lock").read()
    if not os.path.exists(os.path.join(ws, "Cargo.lock")):
        open(os.path.join(ws, "Cargo.lock"), "w").write(lock)
    want.add(os.path.normpath(os.path.join(ws, "Cargo.lock")))
    for name, files in crates.items():
        has_toml = "Cargo.toml" in files
        if not has_toml:
            put(f"{name}/Cargo.toml", f'[package]\nname = "{name}"\nversion = "0.0.0"\nedition = "2021"\npublish = false\n\n[dependencies]\n{KONST_DEP}')
        for rel, content in files.items():
            put(f"{name}/{rel}", content)
    # remove stale files (old programs)
    for dp, dn, fn in os.walk(ws):
        for f in fn:
            p = os.path.normpath(os.path.join(dp, f))
            if p not in want:
                os.remove(p)
    for name in os.listdir(ws):
        d = os.path.join(ws, name)
        if os.path.isdir(d) and name not in crates:
            shutil.rmtree(d)
    return ws


def cargo(ws, args, timeout=3600, env_extra=None):
    env = dict(ENV)
    if env_extra:
        env.update(env_extra)
    try:
        p = subprocess.run(["cargo"] + args + ["--offline"], cwd=ws, env=env, stdout=subprocess.PIPE, stderr=subprocess.PIPE, text=True, errors="replace", timeout=timeout)
    except subprocess.TimeoutExpired:
        machinery(f"cargo {' '.join(args)} exceeded {timeout}s")
    return p.returncode, p.stdout, p.stderr


def check_json(ws, extra_args=(), timeout=3600):
    """cargo check --message-format=json --keep-going; returns (per-target errors {target_name: [rendered msgs]}, compiled targets set, raw rc)."""
    rc, out, err = cargo(ws, ["check", "--keep-going", "--message-format=json", *extra_args], timeout=timeout)
    errors, seen = {}, set()
    for line in out.split("\n"):
        if not line.startswith("{"):
            continue
        try:
            m = json.loads(line)
        except json.JSONDecodeError:
            continue
        if m.get("reason") == "compiler-message":
            msg = m["message"]
            tgt = m["target"]["name"]
            if msg.get("level") == "error":
                spans = [(s["file_name"], s["line_start"]) for s in msg.get("spans", []) if s.get("is_primary")]
                # macro expansions: walk to the outermost expansion site inside the generated file (primary spans only)
                for s in msg.get("spans", []):
                    if not s.get("is_primary"):
                        continue
                    e = s
                    while e.get("expansion"):
                        e = e["expansion"]["span"]
                    spans.append((e["file_name"], e["line_start"]))
                errors.setdefault(tgt, []).append({"msg": msg.get("message", ""), "code": (msg.get("code") or {}).get("code"), "spans": spans, "rendered": (msg.get("rendered") or "")[:1500]})
        elif m.get("reason") == "compiler-artifact":
            seen.add(m["target"]["name"])
    return errors, seen, rc, err


def run_bin(ws, crate, args=(), timeout=3600):
    exe = os.path.join(TARGET, "debug", crate)
    try:
        p = subprocess.run([exe, *args], cwd=ws, stdout=subprocess.PIPE, stderr=subprocess.PIPE, text=True, errors="replace", timeout=timeout, env=ENV)
    except subprocess.TimeoutExpired:
        return None, "", "timeout"
    return p.returncode, p.stdout, p.stderr


MODULES = {"C10": "gen_c10", "C17": "gen_c17", "C18": "gen_c18", "C19": "gen_c19", "C20": "gen_c20", "C11": "gen_c11", "C15": "gen_c15", "C01": "gen_c01"}


COMBINED = {"C20", "C11", "C15"}


def merge_reports(a, b):
    out = dict(b)
    for k in ("states", "transitions", "traces", "evaluations", "distinct_nontrivial", "distinct_outcomes", "range_checks", "utf8_checks", "violations_total"):
        out[k] = int(a.get(k, 0)) + int(b.get(k, 0))
    for k in ("samples", "nontrivial_samples", "notes", "violations", "machinery_errors", "caps_hit"):
        out[k] = list(a.get(k, [])) + list(b.get(k, []))
    out["rule"] = "[native stage] " + a.get("rule", "") + " || [program stage] " + b.get("rule", "")
    out["bounds"] = "[native stage] " + a.get("bounds", "") + " || [program stage] " + b.get("bounds", "")
    out["engines"] = a.get("engines", {})
    return out


def setup():
    os.makedirs(GEN, exist_ok=True)


def check(pid, tier, seed, drv):
    """drv: the driver's verdict / write_evidence functions"""
    if pid not in MODULES:
        machinery(f"no engine registered for {pid}")
    mod = importlib.import_module(MODULES[pid])
    t0 = time.time()
    rep = mod.run(tier, seed, drv)
    if pid in COMBINED and not rep.get("machinery_errors"):
        # native (rt) stage of the same property: merged into one verdict / one evidence file
        drv["build_rt"](pid)
        if drv["rt_build"].get("own_errors"):
            rt = drv["own_engine_report"](pid)  # the native engine's fixed programs are rejected by rustc
            rep["exhaustive"] = False
        else:
            rt = drv["run_rt"](pid, tier, 3 * 3600)
        rep = merge_reports(rt, rep)
    if rep.get("machinery_errors"):
        for e in rep["machinery_errors"][:10]:
            print("MACHINERY:", e)
        machinery("generator / build failure (never a verdict)")
    code = drv["verdict"](pid, tier, rep)
    drv["write_evidence"](pid, tier, seed, rep, time.time() - t0, extra=rep.get("extra"), exhaustive=rep.get("exhaustive", True))
    return code


def replay_e3(pid, path, drv):
    """regenerates the (deterministic) program family of the recorded tier and reports whether the recorded case still violates"""
    mod = importlib.import_module(MODULES[pid])
    v = json.load(open(path))
    rep = mod.run(v.get("tier", "quick"), 1, drv)
    if rep.get("machinery_errors"):
        for e in rep["machinery_errors"][:10]:
            print("MACHINERY:", e)
        machinery("generator / build failure (never a verdict)")
    known = drv["load_known"]()
    hits = [x for x in rep["violations"] if x.get("replay") == v.get("replay") and not any(drv["finding_matches"](f, pid, x) for f in known)]
    for x in hits:
        print(f"  {x['case']}: expected {x['expected']}, observed {x['observed']}")
    if hits:
        print(f"VIOLATION property={pid} replay={path}")
        return 1
    print(f"replay of {path}: property holds on this case now")
    return 0


class ProgSet:
    """A family of generated programs (one small fn each) sharded over several crates of one workspace.
    Each crate's main() calls run(PROGS) from its support module. Handles the two-phase build:
    phase A finds the programs rustc rejects (attributed by line range), phase B builds the rest."""

    def __init__(self, pid, prefix, nshards, support_rs, prelude="", prog_type="Prog", table_entry=None):
        self.pid, self.prefix, self.n, self.support, self.prelude = pid, prefix, nshards, support_rs, prelude
        self.progs = []  # (id, lines, entry)
        self.prog_type = prog_type
        # a shard that has not finished after this many seconds is taken apart (one process per program); the programs
        # themselves run for milliseconds; VERIF_TIER is exported by the driver
        self.shard_timeout = 1800 if os.environ.get("VERIF_TIER_RUNNING") == "thorough" else 240

    def add(self, pid, lines, entry):
        self.progs.append((pid, lines, entry))

    def render(self, exclude=()):
        crates, linemap = {}, {}
        shards = [[] for _ in range(self.n)]
        k = 0
        for p in self.progs:
            if p[0] in exclude:
                continue
            shards[k % self.n].append(p)
            k += 1
        self._shard_ids = {si: [p[0] for p in sh] for si, sh in enumerate(shards)}
        for si, sh in enumerate(shards):
            name = f"{self.prefix}_{si}"
            lines = ["#![allow(unused, clippy::all, long_running_const_eval)]", "mod support;", "use support::*;"] + self.prelude.split("\n") + [""]
            for (pid, plines, entry) in sh:
                start = len(lines) + 1
                for pl in plines:
                    lines.extend(pl.split("\n"))  # literals may contain newlines: keep line numbers exact
                linemap[(name, pid)] = (start, len(lines))
            lines.append(f"static PROGS: &[{self.prog_type}] = &[")
            for (pid, plines, entry) in sh:
                lines.append(f"    {entry},")
            lines.append("];")
            lines.append("fn main() { run(PROGS); }")
            crates[name] = {"src/main.rs": "\n".join(lines) + "\n", "src/support.rs": self.support}
        return crates, linemap

    def build(self, extra_crates=None):
        """returns (ws, rejected {prog id: msg}, machinery_errors)"""
        rejected, mach = {}, []
        # iterated: errors of an early compiler phase (macro expansion) hide later ones (type checking, const evaluation)
        for _round in range(6):
            crates, linemap = self.render(exclude=set(rejected))
            if extra_crates:
                crates.update(extra_crates)
            ws = write_workspace(self.pid, crates)
            errors, seen, rc, err = check_json(ws)
            before = len(rejected)
            for tgt, errs in errors.items():
                if not tgt.startswith(self.prefix + "_"):
                    continue
                for e in errs:
                    hit = False
                    for (f, line) in e["spans"]:
                        if not f.endswith(f"{tgt}/src/main.rs"):
                            continue  # a span inside konst's own sources: only the expansion site in the generated file counts
                        for (name, pid), (a, b) in linemap.items():
                            if name == tgt and a <= line <= b:
                                rejected.setdefault(pid, e["msg"] + " | " + e["rendered"][:400])
                                hit = True
                    if not hit and e["msg"] and "aborting" not in e["msg"] and "could not compile" not in e["msg"]:
                        mach.append(f"unattributed compiler error in {tgt}: {e['msg'][:300]} {e['spans'][:3]}")
            if mach:
                return ws, rejected, mach
            if len(rejected) == before:
                break
        rcode, out, errtxt = cargo(ws, ["build", "-q"] + sum([["-p", c] for c in sorted(crates) if c.startswith(self.prefix + "_")], []))
        if rcode != 0:
            mach.append(f"generated {self.pid} workspace does not build after removing rejected programs: " + errtxt[-2000:])
        return ws, rejected, mach

    def run_all(self, ws, args=()):
        """runs every shard; returns (list of parsed JSON lines, machinery errors)"""
        import concurrent.futures
        res, mach = [], []
        hung = 0
        def one(si):
            return run_bin(ws, f"{self.prefix}_{si}", list(args), timeout=self.shard_timeout)
        with concurrent.futures.ThreadPoolExecutor(self.n) as ex:
            for si, (rc, o, e) in enumerate(ex.map(one, range(self.n))):
                if rc != 0:
                    # a crashing runner (abort / signal: memory error inside the code under test - the generated programs
                    # contain no unsafe) is isolated by running each of the shard's programs in its own process
                    ids = getattr(self, "_shard_ids", {}).get(si, [])
                    # ... and so is a runner that does not come back: each program gets its own process and 30 s (the
                    # programs run for milliseconds); one that still does not return "does not terminate"
                    if rc in (-6, -11, -7, -4, 134, 139, None) and ids and not args:
                        for pid in ids:
                            if hung >= 3:
                                break  # three programs do not terminate: enough for a verdict, the rest is not run
                            rc1, o1, e1 = run_bin(ws, f"{self.prefix}_{si}", [str(pid)], timeout=30)
                            hung += 1 if rc1 is None else 0
                            if rc1 == 0:
                                for line in o1.split("\n"):
                                    if line.startswith("{"):
                                        res.append(json.loads(line))
                            elif rc1 is None:
                                res.append({"id": pid, "n": 1, "bad": 1, "outcomes": 1, "crash": True,
                                            "first_bad": {"case": "<program does not terminate>", "konst": "no result within 30 s (the program's inputs are tiny)", "std": "terminates at once"}})
                            else:
                                res.append({"id": pid, "n": 1, "bad": 1, "outcomes": 1, "crash": True,
                                            "first_bad": {"case": "<program crashed the process>", "konst": f"process died (status {rc1}): {(e1 or '').strip()[-200:]}", "std": "no memory error"}})
                        continue
                    mach.append(f"runner {self.prefix}_{si} failed: rc={rc} {e[-800:]}")
                    continue
                for line in o.split("\n"):
                    if line.startswith("{"):
                        try:
                            res.append(json.loads(line))
                        except json.JSONDecodeError:
                            mach.append(f"bad runner output line: {line[:200]}")
        return res, mach


RUNNER_SUPPORT = r'''
#![allow(unused, clippy::all)]
use std::panic::{catch_unwind, AssertUnwindSafe};
use std::cell::Cell;

thread_local! { pub static CNT: Cell<u32> = const { Cell::new(0) }; }
pub fn cnt() { CNT.with(|c| c.set(c.get() + 1)); }
pub fn cnt_get() -> u32 { CNT.with(|c| c.get()) }
pub fn cnt_reset() { CNT.with(|c| c.set(0)); }

pub fn cu(f: impl FnOnce() -> String) -> String {
    match catch_unwind(AssertUnwindSafe(f)) {
        Ok(s) => s,
        Err(e) => format!("panic: {}", e.downcast_ref::<&str>().map(|s| s.to_string()).or_else(|| e.downcast_ref::<String>().cloned()).unwrap_or_default()),
    }
}

pub fn js(x: &str) -> String {
    let mut s = String::with_capacity(x.len() + 2);
    s.push('"');
    for c in x.chars() {
        match c {
            '"' => s.push_str("\\\""),
            '\\' => s.push_str("\\\\"),
            '\n' => s.push_str("\\n"),
            '\r' => s.push_str("\\r"),
            '\t' => s.push_str("\\t"),
            c if (c as u32) < 0x20 || c as u32 == 0x7F => s.push_str(&format!("\\u{:04x}", c as u32)),
            c => s.push(c),
        }
    }
    s.push('"');
    s
}
/// a program returns its cases: (case description, konst outcome, reference outcome)
pub struct Prog { pub id: u32, pub f: fn() -> Vec<(String, String, String)> }

pub fn run(progs: &[Prog]) {
    std::panic::set_hook(Box::new(|_| {}));
    let only: Option<u32> = std::env::args().nth(1).and_then(|x| x.parse().ok());
    for p in progs {
        if let Some(o) = only { if o != p.id { continue; } }
        let cases = match catch_unwind(|| (p.f)()) { Ok(c) => c, Err(_) => vec![("<program panicked outside cu()>".to_string(), "panic".to_string(), "no panic".to_string())] };
        let mut bad = 0;
        let mut first = String::from("null");
        let mut outcomes = std::collections::HashSet::new();
        for (c, k, s) in &cases {
            outcomes.insert(k.clone());
            if k != s { bad += 1; if first == "null" { first = format!("{{\"case\":{},\"konst\":{},\"std\":{}}}", js(c), js(k), js(s)); } }
        }
        println!("{{\"id\":{},\"n\":{},\"bad\":{},\"outcomes\":{},\"first_bad\":{}}}", p.id, cases.len(), bad, outcomes.len(), first);
    }
}
'''
