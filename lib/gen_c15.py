"""C15 (macro part) — destructure! moves out every field/element exactly once, in order, bit-for-bit,
and drops `_` / `..` matched parts immediately (E3: every supported pattern shape, drop ledger)."""
import itertools
import e3

SUPPORT_EXTRA = r'''
use std::cell::RefCell;
thread_local! { static LEDGER: RefCell<(Vec<u32>, Vec<u32>)> = const { RefCell::new((Vec::new(), Vec::new())) }; }
pub fn ledger_reset() { LEDGER.with(|l| *l.borrow_mut() = (Vec::new(), Vec::new())); }
/// drop-tracking value: id + payload (+ magic to recognise garbage)
#[derive(Debug)]
pub struct Tr { pub id: u32, pub payload: u64, magic: u32 }
pub fn tr(id: u32) -> Tr { LEDGER.with(|l| l.borrow_mut().0.push(id)); Tr { id, payload: 1000 + id as u64 * 3, magic: 0xC0FFEE } }
impl Drop for Tr { fn drop(&mut self) { let (id, m) = (self.id, self.magic); LEDGER.with(|l| l.borrow_mut().1.push(if m == 0xC0FFEE { id } else { 0xDEAD })); } }
/// ids dropped so far, in drop order
pub fn dropped_now() -> Vec<u32> { LEDGER.with(|l| l.borrow().1.clone()) }
/// final verdict: every created id dropped exactly once
pub fn ledger_final() -> String {
    LEDGER.with(|l| { let l = l.borrow(); let mut c = l.0.clone(); c.sort(); let mut d = l.1.clone(); d.sort(); if c == d { "exactly-once".to_string() } else { format!("created {:?} dropped {:?}", c, d) } })
}
pub fn show(t: &Tr) -> (u32, u64) { (t.id, t.payload) }
/// an element whose destructor records itself and then panics (only the first time, to keep unwinding sane)
#[derive(Debug)]
pub struct TrP { pub id: u32 }
pub fn trp(id: u32) -> TrP { LEDGER.with(|l| l.borrow_mut().0.push(id)); TrP { id } }
impl Drop for TrP { fn drop(&mut self) { let id = self.id; let first = LEDGER.with(|l| { let mut l = l.borrow_mut(); let first = !l.1.contains(&id); l.1.push(id); first }); if first && !std::thread::panicking() { panic!("destructor of element {id} panics"); } } }
/// panic-path verdict: nothing dropped twice (leaks are allowed on a path that does not run to completion)
pub fn ledger_at_most_once() -> String {
    LEDGER.with(|l| { let l = l.borrow(); let mut d = l.1.clone(); d.sort(); let n = d.len(); d.dedup(); if d.len() == n { "at-most-once".to_string() } else { format!("dropped twice: {:?}", l.1) } })
}
/// zero-sized element with a destructor: no identity, so the ledger is a pair of counters
thread_local! { static ZC: std::cell::Cell<(u32, u32)> = const { std::cell::Cell::new((0, 0)) }; }
#[derive(Debug)]
pub struct Zd;
pub fn zd() -> Zd { ZC.with(|c| { let (n, d) = c.get(); c.set((n + 1, d)); }); Zd }
impl Drop for Zd { fn drop(&mut self) { ZC.with(|c| { let (n, d) = c.get(); c.set((n, d + 1)); }); } }
pub fn z_reset() { ZC.with(|c| c.set((0, 0))); }
pub fn z_counts() -> (u32, u32) { ZC.with(|c| c.get()) }
pub struct SZ { pub a: Zd, pub b: Zd, pub c: Tr }
pub struct TZ(pub Zd, pub Zd);
pub struct SP { pub a: Tr, pub b: TrP, pub c: Tr }
TUPLE_STRUCTS_1_TO_16
BRACED_STRUCTS_WIDE
pub struct TP(pub Tr, pub TrP, pub Tr);

pub struct S2 { pub a: Tr, pub b: Tr }
pub struct S3 { pub x: Tr, pub y: (Tr, Tr), pub z: () }
pub struct T2(pub Tr, pub Tr);
pub struct T3(pub Tr, pub u8, pub Tr);
pub struct G<A, B> { pub a: A, pub b: B }
pub struct GT<A>(pub A, pub Tr);
#[repr(packed)]
pub struct P { pub a: u8, pub b: Tr, pub c: Tr }
#[repr(C, packed(2))]
pub struct P2(pub u8, pub Tr, pub u16, pub Tr);
pub mod inner { pub struct M { pub a: super::Tr, pub b: super::Tr } }
'''


SUPPORT_EXTRA = SUPPORT_EXTRA.replace("TUPLE_STRUCTS_1_TO_16", "\n".join(f"pub struct TS{n}(" + ", ".join(["pub Tr"] * n) + ");" for n in range(1, 17)))
SUPPORT_EXTRA = SUPPORT_EXTRA.replace("BRACED_STRUCTS_WIDE", "\n".join(f"pub struct TG{n}<A>(" + ", ".join(["pub A"] + ["pub Tr"] * (n - 1)) + ");" for n in range(1, 17)) + "\nBRACED_STRUCTS_WIDE")
SUPPORT_EXTRA = SUPPORT_EXTRA.replace("BRACED_STRUCTS_WIDE", "\n".join(f"pub struct BS{n} {{ " + ", ".join(f"pub f{i}: Tr" for i in range(n)) + " }" for n in (5, 8, 12, 16, 20)))


def pay(i):
    return 1000 + i * 3


def programs(tier):
    P = []

    def prog(name, make, macro, bound, ignored, after_drop_order=None):
        """make: expression building the value from tr(1..n); macro: the destructure! statement;
        bound: list of (var expr -> id) in order; ignored: ids matched by `_`/`..` (must be dropped at the statement)"""
        shows = ", ".join(f"show(&{v})" for v, _ in bound)
        exp_bound = "[" + ", ".join(f"({i}, {pay(i)})" for _, i in bound) + "]"
        body = [
            "ledger_reset();",
            "let k = cu(|| {",
            f"    let v = {make};",
            f"    {macro}",
            "    let mut at_stmt = dropped_now(); at_stmt.sort();",
            f"    let got: Vec<(u32, u64)> = vec![{shows}];",
            f"    {' '.join(f'drop({v});' for v, _ in bound)}",
            "    format!(\"bound={:?} dropped_at_statement={:?} final={}\", got, at_stmt, ledger_final())",
            "});",
            f"out.push(({js(name)}.to_string(), k, format!(\"bound={{:?}} dropped_at_statement={{:?}} final=exactly-once\", {exp_bound} as [(u32, u64); {len(bound)}], {sorted(ignored)} as [u32; {len(ignored)}])));",
        ]
        P.append((name, body))

    # ---- braced structs
    prog("S2 {a, b} = v", "S2 { a: tr(1), b: tr(2) }", "konst::destructure!{S2 {a, b} = v}", [("a", 1), ("b", 2)], [])
    prog("S2 {a, b}: S2 = v", "S2 { a: tr(1), b: tr(2) }", "konst::destructure!{S2 {a, b}: S2 = v}", [("a", 1), ("b", 2)], [])
    prog("S2 {b, a} (field order swapped)", "S2 { a: tr(1), b: tr(2) }", "konst::destructure!{S2 {b, a} = v}", [("a", 1), ("b", 2)], [])
    prog("S2 {a: x, b: y}", "S2 { a: tr(1), b: tr(2) }", "konst::destructure!{S2 {a: x, b: y} = v}", [("x", 1), ("y", 2)], [])
    prog("S2 {a, b: _}", "S2 { a: tr(1), b: tr(2) }", "konst::destructure!{S2 {a, b: _} = v}", [("a", 1)], [2])
    prog("S2 {a: _, b: _}", "S2 { a: tr(1), b: tr(2) }", "konst::destructure!{S2 {a: _, b: _} = v}", [], [1, 2])
    prog("self::S2 {a, b}", "S2 { a: tr(1), b: tr(2) }", "konst::destructure!{self::support::S2 {a, b} = v}", [("a", 1), ("b", 2)], [])
    prog("inner::M {a, b}", "inner::M { a: tr(1), b: tr(2) }", "konst::destructure!{inner::M {a, b} = v}", [("a", 1), ("b", 2)], [])
    prog("S3 {x, y, z} nested tuple + ZST field", "S3 { x: tr(1), y: (tr(2), tr(3)), z: () }", "konst::destructure!{S3 {x, y, z} = v} konst::destructure!{(y0, y1) = y} let _: () = z;", [("x", 1), ("y0", 2), ("y1", 3)], [])
    prog("S3 {x, y: _, z: _}", "S3 { x: tr(1), y: (tr(2), tr(3)), z: () }", "konst::destructure!{S3 {x, y: _, z: _} = v}", [("x", 1)], [2, 3])
    prog("G {a, b} generic", "G { a: tr(1), b: tr(2) }", "konst::destructure!{G {a, b} = v}", [("a", 1), ("b", 2)], [])
    prog("G {a, b}: G<Tr, Tr>", "G { a: tr(1), b: tr(2) }", "konst::destructure!{G {a, b}: G<Tr, Tr> = v}", [("a", 1), ("b", 2)], [])
    prog("G::<(), Tr> {a, b} with ZST field", "G { a: (), b: tr(1) }", "konst::destructure!{G::<(), Tr> {a, b} = v} let _: () = a;", [("b", 1)], [])
    prog("G<[Tr;2], Tr> array field", "G { a: [tr(1), tr(2)], b: tr(3) }", "konst::destructure!{G {a, b} = v} konst::destructure!{[a0, a1] = a}", [("a0", 1), ("a1", 2), ("b", 3)], [])
    # ---- packed structs
    prog("P {a, b, c} repr(packed)", "P { a: 7, b: tr(1), c: tr(2) }", "konst::destructure!{P {a, b, c} = v} assert_eq!(a, 7);", [("b", 1), ("c", 2)], [])
    prog("P {a: _, b: _, c} repr(packed)", "P { a: 7, b: tr(1), c: tr(2) }", "konst::destructure!{P {a: _, b: _, c} = v}", [("c", 2)], [1])
    prog("P2(a, b, c, d) repr(C, packed(2))", "P2(7, tr(1), 9, tr(2))", "konst::destructure!{P2(a, b, c, d) = v} assert_eq!((a, c), (7, 9));", [("b", 1), ("d", 2)], [])
    # ---- tuple structs
    prog("T2(a, b)", "T2(tr(1), tr(2))", "konst::destructure!{T2(a, b) = v}", [("a", 1), ("b", 2)], [])
    prog("T2(a, b): T2", "T2(tr(1), tr(2))", "konst::destructure!{T2(a, b): T2 = v}", [("a", 1), ("b", 2)], [])
    prog("T2(_, b)", "T2(tr(1), tr(2))", "konst::destructure!{T2(_, b) = v}", [("b", 2)], [1])
    prog("T2(a, _)", "T2(tr(1), tr(2))", "konst::destructure!{T2(a, _) = v}", [("a", 1)], [2])
    prog("T3(a, n, c) mixed Copy field", "T3(tr(1), 5, tr(2))", "konst::destructure!{T3(a, n, c) = v} assert_eq!(n, 5);", [("a", 1), ("c", 2)], [])
    prog("GT(a, b) generic tuple struct", "GT(tr(1), tr(2))", "konst::destructure!{GT(a, b) = v}", [("a", 1), ("b", 2)], [])
    prog("GT::<Tr>, (a, b) path form", "GT(tr(1), tr(2))", "konst::destructure!{GT::<Tr>, (a, b) = v}", [("a", 1), ("b", 2)], [])
    # ---- tuple structs of every arity 1..=16, in the path form and in the `Type, (..)` form (each form has its own index table)
    for n in range(1, 17):
        make = f"TS{n}(" + ", ".join(f"tr({i})" for i in range(1, n + 1)) + ")"
        names = [f"e{i}" for i in range(1, n + 1)]
        prog(f"tuple struct arity {n}, path form", make, f"konst::destructure!{{TS{n}({', '.join(names)}) = v}}", [(nm, i + 1) for i, nm in enumerate(names)], [])
        prog(f"tuple struct arity {n}, type form", make, f"konst::destructure!{{TS{n}, ({', '.join(names)}) = v}}", [(nm, i + 1) for i, nm in enumerate(names)], [])
        for pos in sorted({0, n // 2, n - 1}):
            nm2 = list(names)
            nm2[pos] = "_"
            prog(f"tuple struct arity {n} with _ at {pos}", make, f"konst::destructure!{{TS{n}({', '.join(nm2)}) = v}}", [(nm, i + 1) for i, nm in enumerate(names) if i != pos], [pos + 1])
    # ---- generic tuple structs given as a type with arguments (`TG3::<Tr>, (a, b, c)`): a third syntactic route with its own table
    for n in range(1, 17):
        make = f"TG{n}(" + ", ".join(f"tr({i})" for i in range(1, n + 1)) + ")"
        names = [f"e{i}" for i in range(1, n + 1)]
        prog(f"generic tuple struct arity {n}, `Type::<Args>, (..)` form", make, f"konst::destructure!{{TG{n}::<Tr>, ({', '.join(names)}) = v}}", [(nm, i + 1) for i, nm in enumerate(names)], [])
        if n >= 2:
            nm2 = list(names)
            nm2[n - 1] = "_"
            prog(f"generic tuple struct arity {n}, `Type::<Args>, (..)` form, last ignored", make, f"konst::destructure!{{TG{n}::<Tr>, ({', '.join(nm2)}) = v}}", [(nm, i + 1) for i, nm in enumerate(names[:-1])], [n])
    # ---- wide braced structs (more fields than any internal table), fields listed in reverse order
    for n in (5, 8, 12, 16, 20):
        make = f"BS{n} {{ " + ", ".join(f"f{i}: tr({i + 1})" for i in range(n)) + " }"
        fields = [f"f{i}" for i in range(n)]
        prog(f"braced struct with {n} fields", make, f"konst::destructure!{{BS{n} {{{', '.join(fields)}}} = v}}", [(f, i + 1) for i, f in enumerate(fields)], [])
        prog(f"braced struct with {n} fields, reversed order, one ignored", make, f"konst::destructure!{{BS{n} {{{', '.join(reversed(fields[1:]))}, f0: _}} = v}}", [(f, i + 1) for i, f in enumerate(fields) if i != 0], [1])
    # ---- tuples of every arity 1..=16
    for n in range(1, 17):
        make = "(" + ", ".join(f"tr({i})" for i in range(1, n + 1)) + ("," if n == 1 else "") + ")"
        names = [f"e{i}" for i in range(1, n + 1)]
        pat = "(" + ", ".join(names) + ("," if n == 1 else "") + ")"
        prog(f"tuple arity {n}", make, f"konst::destructure!{{{pat} = v}}", [(nm, i + 1) for i, nm in enumerate(names)], [])
        # one `_` at every position (arity <= 4), at first/last otherwise
        for pos in (range(n) if n <= 4 else [0, n - 1]):
            nm2 = list(names)
            nm2[pos] = "_"
            pat2 = "(" + ", ".join(nm2) + ("," if n == 1 else "") + ")"
            prog(f"tuple arity {n} with _ at {pos}", make, f"konst::destructure!{{{pat2} = v}}", [(nm, i + 1) for i, nm in enumerate(names) if i != pos], [pos + 1])
    prog("tuple (a, b): (Tr, Tr) typed", "(tr(1), tr(2))", "konst::destructure!{(a, b): (Tr, Tr) = v}", [("a", 1), ("b", 2)], [])
    prog("tuple with parenthesised sub-patterns", "(tr(1), (tr(2), 4u8))", "konst::destructure!{(a, (b, _n)) = v}", [("a", 1), ("b", 2)], []) if False else None
    # ---- arrays: every split prefix / rest @ .. / suffix for lengths 0..=5
    maxlen = {"quick": 4, "thorough": 5}[tier]
    for n in range(0, maxlen + 1):
        make = "[" + ", ".join(f"tr({i})" for i in range(1, n + 1)) + "]" + (f" as [Tr; 0]" if n == 0 else "")
        # no rest
        names = [f"e{i}" for i in range(1, n + 1)]
        prog(f"array len {n} all elements", make, f"konst::destructure!{{[{', '.join(names)}] = v}}", [(nm, i + 1) for i, nm in enumerate(names)], [])
        if n > 0:
            prog(f"array len {n} all elements typed", make, f"konst::destructure!{{[{', '.join(names)}]: [Tr; {n}] = v}}", [(nm, i + 1) for i, nm in enumerate(names)], [])
        for pre in range(0, n + 1):
            for suf in range(0, n - pre + 1):
                mid = n - pre - suf
                pn = [f"p{i}" for i in range(pre)]
                sn = [f"s{i}" for i in range(suf)]
                # rest @ ..  (bound: an array of the middle elements)
                pat = ", ".join(pn + ["rest @ .."] + sn)
                bound = [(nm, i + 1) for i, nm in enumerate(pn)] + [(f"rest[{j}]", pre + j + 1) for j in range(mid)] + [(nm, pre + mid + i + 1) for i, nm in enumerate(sn)]
                # rest elements are shown through the array, dropped with it
                shows = bound
                body_bound = [(nm, i) for nm, i in bound if not nm.startswith("rest[")]
                P.append(arr_prog(f"array len {n}: [{pat}]", make, f"konst::destructure!{{[{pat}] = v}}", pn, sn, pre, mid, n, rest_bound=True))
                # `..` without binding: the middle is dropped immediately
                pat2 = ", ".join(pn + [".."] + sn)
                P.append(arr_prog(f"array len {n}: [{pat2}]", make, f"konst::destructure!{{[{pat2}] = v}}", pn, sn, pre, mid, n, rest_bound=False))
        # `_` elements and parenthesised sub-patterns
        if n >= 2:
            for pos in range(n):
                nm2 = [("_" if i == pos else f"e{i + 1}") for i in range(n)]
                prog(f"array len {n} with _ at {pos}", make, f"konst::destructure!{{[{', '.join(nm2)}] = v}}", [(f"e{i + 1}", i + 1) for i in range(n) if i != pos], [pos + 1])
            nm3 = ["(e1)"] + [f"e{i + 1}" for i in range(1, n)]
            prog(f"array len {n} with parenthesised (e1)", make, f"konst::destructure!{{[{', '.join(nm3)}] = v}}", [(f"e{i + 1}", i + 1) for i in range(n)], [])
            prog(f"array len {n}: [_, ..]", make, "konst::destructure!{[_, ..] = v}", [], list(range(1, n + 1)))
            prog(f"array len {n}: [.., last]", make, "konst::destructure!{[.., last] = v}", [("last", n)], list(range(1, n)))
    # an ignored (`_` / `..`) element whose destructor panics in the middle of the macro: nothing may be dropped twice
    def panic_prog(name, make, macro, binds):
        body = [
            "ledger_reset();",
            "let k = cu(|| {",
            "    let r = std::panic::catch_unwind(std::panic::AssertUnwindSafe(|| {",
            f"        let v = {make};",
            f"        {macro}",
            f"        {' '.join(f'drop({b});' for b in binds)}",
            "    }));",
            "    format!(\"panicked={} {}\", r.is_err(), ledger_at_most_once())",
            "});",
            f"out.push(({js(name)}.to_string(), k, \"panicked=true at-most-once\".to_string()));",
        ]
        P.append((name, body))
    panic_prog("SP {a, b: _, c} with a panicking destructor of the ignored field", "SP { a: tr(1), b: trp(2), c: tr(3) }", "konst::destructure!{SP {a, b: _, c} = v}", ["a", "c"])
    panic_prog("TP(a, _, c) with a panicking destructor of the ignored field", "TP(tr(1), trp(2), tr(3))", "konst::destructure!{TP(a, _, c) = v}", ["a", "c"])
    panic_prog("tuple (a, _, c) with a panicking destructor of the ignored element", "(tr(1), trp(2), tr(3))", "konst::destructure!{(a, _, c) = v}", ["a", "c"])
    panic_prog("array [a, _, c] with a panicking destructor of the ignored element", "[trp(1), trp(2), trp(3)]", "konst::destructure!{[a, _, c] = v} std::mem::forget(a); std::mem::forget(c);", [])
    panic_prog("array [a, .., c] with a panicking destructor in the ignored rest", "[trp(1), trp(2), trp(3), trp(4)]", "konst::destructure!{[a, .., c] = v} std::mem::forget(a); std::mem::forget(c);", [])
    # zero-sized elements with a destructor (counters instead of identities)
    def zprog(name, make, macro, binds, created, ignored):
        body = [
            "ledger_reset(); z_reset();",
            "let k = cu(|| {",
            "    let at_stmt;",
            "    {",
            f"        let v = {make};",
            f"        {macro}",
            "        at_stmt = z_counts().1;",
            f"        {' '.join(f'let _keep = &{b};' for b in binds)}",
            "    }",
            "    format!(\"dropped_at_statement={} final={:?}\", at_stmt, z_counts())",
            "});",
            f"out.push(({js(name)}.to_string(), k, \"dropped_at_statement={ignored} final=({created}, {created})\".to_string()));",
        ]
        P.append((name, body))
    for n in range(0, maxlen + 1):
        make = "[" + ", ".join("zd()" for _ in range(n)) + "]" + (" as [Zd; 0]" if n == 0 else "")
        names = [f"e{i}" for i in range(n)]
        zprog(f"zero-sized array len {n} all elements", make, f"konst::destructure!{{[{', '.join(names)}] = v}}", names, n, 0)
        for pre in range(0, n + 1):
            for suf in range(0, n - pre + 1):
                mid = n - pre - suf
                pn = [f"p{i}" for i in range(pre)]
                sn = [f"s{i}" for i in range(suf)]
                zprog(f"zero-sized array len {n}: [{', '.join(pn + ['rest @ ..'] + sn)}]", make, f"konst::destructure!{{[{', '.join(pn + ['rest @ ..'] + sn)}] = v}}", pn + ["rest"] + sn, n, 0)
                zprog(f"zero-sized array len {n}: [{', '.join(pn + ['..'] + sn)}]", make, f"konst::destructure!{{[{', '.join(pn + ['..'] + sn)}] = v}}", pn + sn, n, mid)
        for pos in range(n):
            nm2 = [("_" if i == pos else f"e{i}") for i in range(n)]
            zprog(f"zero-sized array len {n} with _ at {pos}", make, f"konst::destructure!{{[{', '.join(nm2)}] = v}}", [x for x in nm2 if x != "_"], n, 1)
    zprog("SZ {a, b, c} zero-sized Drop fields", "SZ { a: zd(), b: zd(), c: tr(1) }", "konst::destructure!{SZ {a, b, c} = v}", ["a", "b", "c"], 2, 0)
    zprog("SZ {a: _, b, c: _} zero-sized Drop fields", "SZ { a: zd(), b: zd(), c: tr(1) }", "konst::destructure!{SZ {a: _, b, c: _} = v}", ["b"], 2, 1)
    zprog("TZ(_, b) zero-sized Drop fields", "TZ(zd(), zd())", "konst::destructure!{TZ(_, b) = v}", ["b"], 2, 1)
    zprog("tuple (a, _, c) of zero-sized Drop values", "(zd(), zd(), zd())", "konst::destructure!{(a, _, c) = v}", ["a", "c"], 3, 1)
    return [p for p in P if p is not None]


def arr_prog(name, make, macro, pn, sn, pre, mid, n, rest_bound):
    vars_ = [(nm, i + 1) for i, nm in enumerate(pn)] + [(nm, pre + mid + i + 1) for i, nm in enumerate(sn)]
    rest_ids = [pre + j + 1 for j in range(mid)]
    shows = [f"show(&{v})" for v, _ in vars_[:pre]]
    if rest_bound:
        shows += [f"show(&rest[{j}])" for j in range(mid)]
    shows += [f"show(&{v})" for v, _ in vars_[pre:]]
    ids_in_order = [i for _, i in vars_[:pre]] + (rest_ids if rest_bound else []) + [i for _, i in vars_[pre:]]
    exp_bound = "[" + ", ".join(f"({i}, {pay(i)})" for i in ids_in_order) + "]"
    ignored = [] if rest_bound else rest_ids
    drops = " ".join(f"drop({v});" for v, _ in vars_) + (" let _: [Tr; %d] = rest; " % mid if rest_bound else "")
    # `let _: [Tr; mid] = rest;` is a type assertion only (does not move); rest is dropped at scope end
    body = [
        "ledger_reset();",
        "let k = cu(|| {",
        "    let at_stmt;",
        "    let got: Vec<(u32, u64)>;",
        "    {",
        f"        let v = {make};",
        f"        {macro}",
        "        let mut d = dropped_now(); d.sort(); at_stmt = d;",
        f"        got = vec![{', '.join(shows)}];",
        f"        {drops}",
        "    }",
        "    format!(\"bound={:?} dropped_at_statement={:?} final={}\", got, at_stmt, ledger_final())",
        "});",
        f"out.push(({js(name)}.to_string(), k, format!(\"bound={{:?}} dropped_at_statement={{:?}} final=exactly-once\", {exp_bound} as [(u32, u64); {len(ids_in_order)}], {sorted(ignored)} as [u32; {len(ignored)}])));",
    ]
    return (name, body)


def js(s):
    return '"' + s.replace("\\", "\\\\").replace('"', '\\"') + '"'


def run(tier, seed, drv):
    rep = {"violations": [], "violations_total": 0, "notes": [], "machinery_errors": [], "samples": [], "nontrivial_samples": []}
    ps = e3.ProgSet("C15", "c15", 6, e3.RUNNER_SUPPORT + SUPPORT_EXTRA)
    allp = programs(tier)
    names = {}
    for i, (name, body) in enumerate(allp):
        names[i] = name
        lines = [f"// {name}", f"fn p{i}() -> Vec<(String, String, String)> {{", "    let mut out: Vec<(String, String, String)> = Vec::new();"] + ["    " + b for b in body if b] + ["    out", "}"]
        ps.add(i, lines, f"Prog {{ id: {i}, f: p{i} }}")
    ws, rejected, mach = ps.build()
    rep["machinery_errors"] += mach
    if mach:
        return rep
    res, mach = ps.run_all(ws)
    rep["machinery_errors"] += mach
    if mach:
        return rep
    viol = []
    for pid, msg in sorted(rejected.items()):
        viol.append({"engine": "destructure", "func": "destructure!", "replay": f"prog|{pid}", "case": "destructure! " + names[pid], "expected": "compiles (supported pattern shape)", "observed": "rejected by rustc: " + msg[:400], "class": "rejected"})
    evals = 0
    for r in res:
        evals += r["n"]
        if r["bad"]:
            fb = r["first_bad"]
            viol.append({"engine": "destructure", "func": "destructure!", "replay": f"prog|{r['id']}", "case": "destructure! " + ((names[r["id"]] + ": " + fb["case"]) if r.get("crash") else fb["case"]), "expected": fb["std"], "observed": fb["konst"], "class": "mismatch"})
    rep["violations"] = viol
    rep["violations_total"] = len(viol)
    rep["overflow_classified"] = True
    rep["states"] = len(allp)
    rep["transitions"] = evals
    rep["traces"] = evals
    rep["evaluations"] = evals
    rep["distinct_nontrivial"] = sum(1 for n in names.values() if "_" in n or ".." in n or "packed" in n)
    rep["rule"] = "program = one destructure! pattern shape applied to a value whose leaves are drop-tracked Tr{id,payload}; observation = (id,payload) of every bound variable in order, the ids already dropped at the statement following the macro (must be exactly the `_`/`..` matched ones), and the final ledger (every id dropped exactly once); a supported shape that rustc rejects is a violation; non-trivial = patterns with `_`, `..` or packed layout"
    rep["bounds"] = f"braced structs (path/type form, renamed, `_`, module path, generic, ZST/array/tuple fields, repr(packed), repr(C,packed(2))), tuple structs, tuples of every arity 1..=16 (with `_` at every position up to arity 4), arrays of length 0..={dict(quick=4, thorough=5)[tier]} with every prefix / rest @ .. / suffix split, `..` without binding, `_` at every position, parenthesised sub-patterns; the same array splits and `_` positions over a zero-sized element type with a destructor (created/dropped counters), structs / tuple structs / tuples with zero-sized Drop fields; {len(allp)} programs"
    rep["samples"] = [names[0], names[len(names) // 3], names[len(names) // 2], names[len(names) - 1]]
    rep["extra"] = {"programs": len(allp), "rejected_by_rustc": len(rejected), "disagreements_checked": len(viol)}
    return rep
