"""C11 (macro part) — array::map!/map_!/from_fn!/from_fn_!/collect_const! return fully initialised arrays equal to std's,
and no control flow inside the user closure can make them return an array with an unwritten element (E3)."""
import time
import e3

SUPPORT_EXTRA = r'''
thread_local! { pub static STEPS: std::cell::Cell<u32> = const { std::cell::Cell::new(0) }; }
/// non-termination guard: a closure that keeps being re-entered (e.g. `continue` skipping the index increment)
/// is cut off after 5000 entries; that outcome counts as "does not terminate".
pub fn guard() { STEPS.with(|s| { s.set(s.get() + 1); if s.get() > 5000 { s.set(0); panic!("NONTERMINATION-GUARD"); } }); }
pub fn guard_reset() { STEPS.with(|s| s.set(0)); }
pub fn to_u16(x: u8) -> u16 { (x as u16) * 3 + 1 }
pub fn idx_u16(i: usize) -> u16 { (i as u16) * 7 + 2 }
/// function-valued *expressions* in closure position: std evaluates the expression once (also for length 0); a second
/// evaluation is observable twice over - through the counter and because it returns a different function
thread_local! { pub static PICKS: std::cell::Cell<u32> = const { std::cell::Cell::new(0) }; }
pub fn picks_reset() { PICKS.with(|c| c.set(0)); }
pub fn picks() -> u32 { PICKS.with(|c| c.get()) }
fn bump() -> u32 { PICKS.with(|c| { c.set(c.get() + 1); c.get() }) }
pub fn to_u16_b(x: u8) -> u16 { (x as u16) * 100 }
pub fn idx_u16_b(i: usize) -> u16 { (i as u16) * 100 }
pub fn pick_u16() -> fn(u8) -> u16 { if bump() == 1 { to_u16 } else { to_u16_b } }
pub fn pick_idx() -> fn(usize) -> u16 { if bump() == 1 { idx_u16 } else { idx_u16_b } }
/// classify an outcome: the macro either yields an array ("array [...]") or not
pub fn cls(k: String) -> String { if k.starts_with("array") { k } else { "no array".to_string() } }
'''

EXITS = {
    "break": "break;",
    "continue": "continue;",
    "return": "return Err(\"return\");",
    "question": "Err::<(), &'static str>(\"question\")?;",
    "lbreak": "break 'outer;",
    "lcontinue": "continue 'outer;",
    "panic": "panic!(\"closure panics\");",
}


def programs(tier):
    maxn = {"quick": 3, "thorough": 4}[tier]
    P = []  # (name, hostile: bool, body lines)

    def prog(name, hostile, n, out_ty, setup, call, std_expr, extra=None):
        """call: the macro invocation text with {BODY_PRE} placeholder already substituted;
        extra: an expression observed after the call on both sides (rendered behind the array)"""
        ex = f", {extra}" if extra else ""
        exf = " extra={:?}" if extra else ""
        body = [
            f"fn inner() -> Result<[{out_ty}; {n}], &'static str> {{",
            f"    {setup}",
            "    let mut n = 0usize;",
            "    #[allow(unreachable_code, unused_labels, clippy::never_loop)]",
            "    'outer: loop {",
            f"        let arr = {call};",
            "        return Ok(arr);",
            "    }",
            "    #[allow(unreachable_code)] Err(\"left the labelled block\")",
            "}",
            "guard_reset();",
            f"let k = cu(|| match inner() {{ Ok(a) => format!(\"array {{:?}}{exf}\", a{ex}), Err(e) => format!(\"exit: {{e}}\") }});",
        ]
        if hostile:
            # allowed: no array at all, or exactly std's (fully initialised) array - e.g. a one-off `continue` that re-runs the element
            body.append(f"let s = {{ {setup} format!(\"array {{:?}}\", {std_expr}) }};")
            body.append(f"out.push(({e3_js(name)}.to_string(), if k == s {{ \"no array\".to_string() }} else {{ cls(k) }}, \"no array\".to_string()));")
        else:
            body.append(f"let s = {{ {setup} let a = {std_expr}; format!(\"array {{:?}}{exf}\", a{ex}) }};")
            body.append(f"out.push(({e3_js(name)}.to_string(), k, s));")
        P.append((name, hostile, body))

    def pre(kind, k, trig="_i == {k}"):
        """statements at the start of the closure body: guard + hostile trigger at element k.
        `trig` is a condition on the element itself (fires every time that element is evaluated);
        the `once` kinds use the entry counter instead (fire the first time only)."""
        if kind == "ok":
            return "guard(); let _i = n; n += 1;"
        if kind.endswith("_once"):
            return f"guard(); let _i = n; n += 1; if _i == {k} {{ {EXITS[kind[:-5]]} }}"
        return f"guard(); let _i = n; n += 1; if {trig.format(k=k, k1=k + 1)} {{ {EXITS[kind]} }}"

    for n in range(0, maxn + 1):
        vals = ", ".join(str(i + 1) for i in range(n))
        svals = ", ".join(f'"s{i}"' for i in range(n))
        behaviours = [("ok", None)] + [(ex, k) for ex in list(EXITS) + ["continue_once", "lcontinue_once"] for k in range(n)]
        for kind, k in behaviours:
            hostile = kind != "ok"
            tag = "well-behaved" if not hostile else f"{kind} at element {k}"
            p = pre(kind, k, "x == {k1}")
            pr = pre(kind, k, "*x == {k1}")
            pt = pre(kind, k, "a == {k1}")
            pstr = pre(kind, k, "s == \"s{k}\"")
            pv = pre(kind, k, "s == \"v{k}\"")
            pi = pre(kind, k, "i == {k}")
            # ---------- array::map! (by reference to the array, Copy elements)
            forms = [
                ("|x|", f"|x| {{ {p} (x as u16) * 3 + 1 }}"),
                ("|x: u8|", f"|x: u8| {{ {p} (x as u16) * 3 + 1 }}"),
                ("|x| -> u16", f"|x| -> u16 {{ {p} (x as u16) * 3 + 1 }}"),
                ("|ref x|", f"|ref x| {{ {pr} (*x as u16) * 3 + 1 }}"),
            ]
            for fname, clos in (forms if (not hostile or kind in ("break", "continue", "continue_once")) else forms[:1]):
                prog(f"array::map!([u8; {n}], {fname}) {tag}", hostile, n, "u16", f"let input: [u8; {n}] = [{vals}];", f"konst::array::map!(input, {clos})", "input.map(|x| (x as u16) * 3 + 1)")
            # destructuring pattern over tuple elements
            tvals = ", ".join(f"({i + 1}u8, {10 * (i + 1)}u16)" for i in range(n))
            prog(f"array::map!([(u8,u16); {n}], |(a, b)|) {tag}", hostile, n, "u16", f"let input: [(u8, u16); {n}] = [{tvals}];", f"konst::array::map!(input, |(a, b)| {{ {pt} a as u16 + b }})", "input.map(|(a, b)| a as u16 + b)")
            # &str elements
            prog(f"array::map!([&str; {n}], |s|) {tag}", hostile, n, "usize", f"let input: [&str; {n}] = [{svals}];", f"konst::array::map!(input, |s| {{ {pstr} s.len() + 5 }})", "input.map(|s| s.len() + 5)")
            # ---------- array::map_! (by value, non-Copy elements)
            strs = ", ".join(f'String::from("v{i}")' for i in range(n))
            prog(f"array::map_!([String; {n}], |s|) {tag}", hostile, n, "String", f"let input: [String; {n}] = [{strs}];", f"konst::array::map_!(input, |s| {{ {pv} format!(\"{{s}}!\") }})", "input.map(|s| format!(\"{s}!\"))")
            prog(f"array::map_!([u8; {n}], |x: u8| -> u16) {tag}", hostile, n, "u16", f"let input: [u8; {n}] = [{vals}];", f"konst::array::map_!(input, |x: u8| -> u16 {{ {p} (x as u16) * 3 + 1 }})", "input.map(|x| (x as u16) * 3 + 1)")
            # ---------- from_fn! / from_fn_!
            for mac in ("from_fn!", "from_fn_!"):
                prog(f"array::{mac}(|i|) len {n} {tag}", hostile, n, "u16", "", f"konst::array::{mac}(|i| {{ {pi} (i as u16) * 7 + 2 }})", f"core::array::from_fn::<u16, {n}, _>(|i| (i as u16) * 7 + 2)")
                prog(f"array::{mac}([u16; {n}] => |i|) {tag}", hostile, n, "u16", "", f"konst::array::{mac}([u16; {n}] => |i| {{ {pi} (i as u16) * 7 + 2 }})", f"core::array::from_fn::<u16, {n}, _>(|i| (i as u16) * 7 + 2)")
                if mac == "from_fn_!":
                    prog(f"array::{mac}(|i| String) len {n} {tag}", hostile, n, "String", "", f"konst::array::{mac}(|i| {{ {pi} format!(\"e{{i}}\") }})", f"core::array::from_fn::<String, {n}, _>(|i| format!(\"e{{i}}\"))")
        # function path forms (no hostile variants possible)
        prog(f"array::map!([u8; {n}], path)", False, n, "u16", f"let input: [u8; {n}] = [{vals}];", "konst::array::map!(input, to_u16)", "input.map(to_u16)")
        prog(f"array::map_!([u8; {n}], path)", False, n, "u16", f"let input: [u8; {n}] = [{vals}];", "konst::array::map_!(input, to_u16)", "input.map(to_u16)")
        prog(f"array::from_fn!(path) len {n}", False, n, "u16", "", "konst::array::from_fn!(idx_u16)", f"core::array::from_fn::<u16, {n}, _>(idx_u16)")
        prog(f"array::from_fn_!(path) len {n}", False, n, "u16", "", "konst::array::from_fn_!(idx_u16)", f"core::array::from_fn::<u16, {n}, _>(idx_u16)")
    for n in range(0, maxn + 1):
        vals = ", ".join(str(i + 1) for i in range(n))
        # a function-valued expression is evaluated exactly once
        prog(f"array::map!([u8; {n}], function-valued expression)", False, n, "u16", f"picks_reset(); let input: [u8; {n}] = [{vals}];", "konst::array::map!(input, pick_u16())", "input.map(pick_u16())", extra="picks()")
        prog(f"array::map_!([u8; {n}], function-valued expression)", False, n, "u16", f"picks_reset(); let input: [u8; {n}] = [{vals}];", "konst::array::map_!(input, pick_u16())", "input.map(pick_u16())", extra="picks()")
        for mac in ("from_fn!", "from_fn_!"):
            prog(f"array::{mac}(function-valued expression) len {n}", False, n, "u16", "picks_reset();", f"konst::array::{mac}(pick_idx())", f"core::array::from_fn::<u16, {n}, _>(pick_idx())", extra="picks()")
            # the index handed to the closure is a usize even when the closure body does not pin its type
            for bname, body in [("!i >> 1", "(!i >> 1) as u64"), ("(i << 31) | i", "((i << 31) | i) as u64"), ("size_of_val(&i)", "core::mem::size_of_val(&i) as u64"), ("i.wrapping_sub(1) / 3", "(i.wrapping_sub(1) / 3) as u64"), ("i.count_zeros()", "i.count_zeros() as u64")]:
                prog(f"array::{mac}(|i| {bname}) len {n} (index type)", False, n, "u64", "", f"konst::array::{mac}(|i| {body})", f"core::array::from_fn::<u64, {n}, _>(|i| {body})")
                prog(f"array::{mac}([u64; {n}] => |i| {bname}) (index type)", False, n, "u64", "", f"konst::array::{mac}([u64; {n}] => |i| {body})", f"core::array::from_fn::<u64, {n}, _>(|i| {body})")
    # ---------- item / generic-parameter hygiene of collect_const!: `const` items and the generic parameters of a helper fn
    # declared inside a macro body are not hygienic, so a user constant or type alias of the same name inside the
    # invocation must still mean the user's (names read from the macro's source, obfuscated `__`/`_KO9Y…` ones excluded)
    for nm in hygiene_names():
        up = nm.upper() if nm[0].islower() else nm
        body = [f"const {up}: usize = 10;", f"const K1: &[usize] = &konst::iter::collect_const!(usize => 0..3usize, map(|x| x + {up}));",
                f"const K2: &[usize] = &konst::iter::collect_const!(usize => 0..{up}, take(3));", f"const K3: &[usize] = &konst::iter::collect_const!(usize => 8..12usize, filter(|x| *x >= {up}));",
                f"out.push(({e3_js('collect_const! with a user constant named ' + up + ' (map)')}.to_string(), format!(\"{{:?}}\", K1), format!(\"{{:?}}\", (0..3usize).map(|x| x + {up}).collect::<Vec<_>>())));",
                f"out.push(({e3_js('collect_const! with a user constant named ' + up + ' (range bound)')}.to_string(), format!(\"{{:?}}\", K2), format!(\"{{:?}}\", (0..{up}).take(3).collect::<Vec<_>>())));",
                f"out.push(({e3_js('collect_const! with a user constant named ' + up + ' (filter)')}.to_string(), format!(\"{{:?}}\", K3), format!(\"{{:?}}\", (8..12usize).filter(|x| *x >= {up}).collect::<Vec<_>>())));"]
        P.append((f"collect_const! hygiene: user constant {up}", False, body))
        ty = nm[0].upper() + nm[1:] if nm[0].islower() else nm
        body2 = [f"#[allow(non_camel_case_types)] type {ty} = u16;", f"const K: &[{ty}] = &konst::iter::collect_const!({ty} => &[1u16, 2, 3], copied(), map(|x: {ty}| x * 2));",
                 f"out.push(({e3_js('collect_const! with a user type alias named ' + ty)}.to_string(), format!(\"{{:?}}\", K), \"[2, 4, 6]\".to_string()));"]
        P.append((f"collect_const! hygiene: user type alias {ty}", False, body2))
    # ---------- collect_const! over an open range `a..` cut by take(n), up to the last value before the type's maximum
    # (round 15: RangeFromIter::next refused to yield T::MAX; konst's take pulls one more element than it yields, so
    # `250u8.., take(5)` already pulls 255). Chains that would need the element *after* T::MAX are left out (overflow in std).
    for ty, mx in [("u8", 255), ("i8", 127), ("u16", 65535)]:
        for start in [mx - 6, mx - 3, mx - 1, mx]:
            for n in range(0, mx - start + 1):
                exp = list(range(start, start + n))
                for chain, e in [(f"take({n})", exp), (f"take({n}), map(|x| x)", exp), (f"enumerate(), take({n}), map(|(_, x)| x)", exp)]:
                    body = [f"const K: &[{ty}] = &konst::iter::collect_const!({ty} => {start}{ty}.., {chain});",
                            f"out.push(({e3_js('collect_const!(' + ty + ' => ' + str(start) + ty + '.., ' + chain + ')')}.to_string(), format!(\"{{:?}}\", K), format!(\"{{:?}}\", ({start}{ty}..).take({n}).collect::<Vec<_>>())));"]
                    P.append((f"collect_const!({ty} => {start}{ty}.., {chain})", False, body))
    # ---------- collect_const! with hostile closures: must be rejected, or yield only produced values
    for n in range(0, maxn + 1):
        vals = ", ".join(str(i + 1) for i in range(n))
        for kind, k in [("ok", None)] + [(ex, kk) for ex in ("break", "continue", "return", "panic") for kk in range(n)]:
            hostile = kind != "ok"
            tag = "well-behaved" if not hostile else f"{kind} at element {k}"
            ex = "" if not hostile else ("return;" if kind == "return" else EXITS[kind])
            cond = "" if not hostile else f"if *x == {k + 1} {{ {ex} }}"
            name = f"collect_const!(&[u8; {n}], map) {tag}"
            body = [f"const IN: [u8; {n}] = [{vals}];",
                    f"const K: &[u16] = &konst::iter::collect_const!(u16 => &IN, map(|x| {{ {cond} (*x as u16) * 3 + 1 }}));"]
            if hostile:
                # if it compiles at all, every element must be a produced value and the length at most n
                body.append(f"let ok = K.len() <= {n} && K.iter().all(|v| IN.iter().any(|x| (*x as u16) * 3 + 1 == *v));")
                body.append(f"out.push(({e3_js(name)}.to_string(), if ok {{ \"only produced values\".to_string() }} else {{ format!(\"array {{:?}}\", K) }}, \"only produced values\".to_string()));")
            else:
                body.append(f"out.push(({e3_js(name)}.to_string(), format!(\"{{:?}}\", K), format!(\"{{:?}}\", IN.iter().map(|x| (*x as u16) * 3 + 1).collect::<Vec<_>>())));")
            P.append((name, hostile, body))
    return P


def hygiene_names():
    import re, os
    names = {"CAP", "LEN", "N", "Ret", "ARR", "COUNT", "T", "Item", "OUT"}
    f = "/repo/konst_kernel/src/collect_const.rs"
    if os.path.exists(f):
        src = open(f, errors="replace").read()
        names.update(re.findall(r"\bconst\s+([A-Za-z_][A-Za-z0-9_]*)\s*:", src))
        for g in re.findall(r"fn\s+\w+\s*<([^>]*)>", src):
            for part in g.split(","):
                m = re.match(r"\s*(?:const\s+)?([A-Za-z_][A-Za-z0-9_]*)", part)
                if m:
                    names.add(m.group(1))
    return sorted(n for n in names if not n.startswith("__") and "_KO9Y" not in n and "81608" not in n and n not in ("_", "usize", "Self"))


def e3_js(s):
    return '"' + s.replace("\\", "\\\\").replace('"', '\\"') + '"'


def run(tier, seed, drv):
    rep = {"violations": [], "violations_total": 0, "notes": [], "machinery_errors": [], "samples": [], "nontrivial_samples": []}
    ps = e3.ProgSet("C11", "c11", 8, e3.RUNNER_SUPPORT + SUPPORT_EXTRA)
    allp = programs(tier)
    names, hostile = {}, {}
    for i, (name, h, body) in enumerate(allp):
        names[i], hostile[i] = name, h
        lines = [f"// {name}", f"fn p{i}() -> Vec<(String, String, String)> {{", "    let mut out: Vec<(String, String, String)> = Vec::new();"] + ["    " + b for b in body if b] + ["    out", "}"]
        ps.add(i, lines, f"Prog {{ id: {i}, f: p{i} }}")
    ws, rejected, mach = ps.build()
    rep["machinery_errors"] += mach
    if mach:
        return rep
    res, mach = ps.run_all(ws)
    rep["machinery_errors"] += mach
    if mach:
        return rep
    viol = []
    rej_hostile = 0
    for pid, msg in sorted(rejected.items()):
        if hostile[pid]:
            rej_hostile += 1  # an allowed outcome: fails to compile
        else:
            viol.append({"engine": "arraymacro", "func": names[pid].split("(")[0], "replay": f"prog|{pid}", "case": names[pid], "expected": "compiles and equals std", "observed": "rejected by rustc: " + msg[:400], "class": "rejected"})
    evals = 0
    for r in res:
        evals += r["n"]
        if r["bad"]:
            fb = r["first_bad"]
            viol.append({"engine": "arraymacro", "func": names[r["id"]].split("(")[0], "replay": f"prog|{r['id']}", "case": (names[r["id"]] + ": " + fb["case"]) if r.get("crash") else fb["case"], "expected": fb["std"], "observed": fb["konst"], "class": "mismatch"})
    # collect_const! = Iterator::collect for chains in which the iteration direction has to reach every adapter
    import gen_c10
    dchains = gen_c10.direction_chains(tier)
    cviol, citems, cmach, cknown = gen_c10.const_family("C11K", dchains)
    rep["machinery_errors"] += cmach
    if cmach:
        return rep
    for v in cviol:
        v["engine"] = "arraymacro"
    viol += cviol
    evals += citems
    rep["violations"] = viol
    rep["violations_total"] = len(viol)
    rep["overflow_classified"] = True
    rep["states"] = len(allp) + len(dchains)
    rep["transitions"] = evals + len(rejected)
    rep["traces"] = evals
    rep["evaluations"] = evals + len(rejected)
    rep["distinct_nontrivial"] = sum(1 for h in hostile.values() if h)
    rep["rule"] = "program = one array macro invocation (map!, map_!, from_fn!, from_fn_!, collect_const!) x length x parameter form x closure behaviour (well-behaved, or an early exit - break, continue, return, ?, labelled break/continue to an enclosing loop, panic! - at element k for every k); each sits in its own function returning Result so that non-local exits have somewhere legal to go; outcome classes: rejected by rustc | panics | does not terminate (5000-entry guard) | leaves the function/labelled block | yields an array; well-behaved programs must yield std's array, hostile ones must not yield an array at all (collect_const!: only produced values); non-trivial = hostile programs"
    rep["bounds"] = f"lengths 0..={dict(quick=3, thorough=4)[tier]}; element types u8, (u8,u16), &str, String; forms |x|, |x: T|, |x| -> T, |ref x|, |(a,b)|, function path, typed from_fn; {len(allp)} programs; collect_const! = Iterator::collect on {len(dchains)} adapter chains (all chains of <= 2 direction-sensitive adapters and every {dict(quick=3, thorough=4)[tier]}-chain over rev/zip/flat_map/take/enumerate/skip containing rev(), sources slice / a..b / a..=b) plus open ranges a.. of u8/i8/u16 starting 0..6 below the maximum cut by take(n) up to the maximum x {len(gen_c10.CONST_INPUTS)} const inputs, evaluated by rustc's const evaluator"
    rep["samples"] = [names[0], names[len(names) // 3], names[len(names) // 2], names[len(names) - 1]]
    rep["extra"] = {"collect_const_chain_items": citems, "collect_const_f7_shaped_known": cknown, "programs": len(allp), "rejected_by_rustc": len(rejected), "hostile_rejected_by_rustc": rej_hostile, "disagreements_checked": len(viol)}
    return rep
