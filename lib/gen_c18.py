"""C18 — parser_method! = the equivalent chain of Parser calls; literal bytes = what rustc gives the literal (E3).
The same literal tokens are used once inside the macro and once as ordinary &str expressions (so rustc itself
is the reference decoder); every program runs on all inputs of <= k atoms over its own literals + a foreign char."""
import itertools
import e3

SUPPORT_EXTRA = r'''
pub use konst::Parser;
pub type Obs = (usize, usize, usize, String);
pub fn obs(branch: usize, p: Parser<'_>, input: &str) -> Obs {
    // remainder by address: offset inside input (usize::MAX if outside / empty)
    let r = p.remainder();
    let _ = input;
    (branch, p.start_offset(), p.end_offset(), r.to_string())
}
/// what a branch expression sees when it reads the parser (round 15: a strip form that ran its branch before advancing)
pub fn snap(p: Parser<'_>, base: usize) -> String { format!("{}..{} {:?}", p.start_offset() - base, p.end_offset() - base, p.remainder()) }
pub fn addr_ok(p: Parser<'_>, input: &str, base: usize) -> bool {
    let r = p.remainder();
    if r.is_empty() { return p.start_offset() >= base && p.end_offset() == p.start_offset() && p.end_offset() - base <= input.len(); }
    let off = (r.as_ptr() as usize).wrapping_sub(input.as_ptr() as usize);
    off <= input.len() && off + r.len() <= input.len() && off == p.start_offset() - base && p.end_offset() - p.start_offset() == r.len()
}
/// references; `alts[b]` = alternatives of branch b in listed order. Return (branch or 99, lo, hi) relative to rem
pub fn ref_strip_prefix(rem: &str, alts: &[&[&str]]) -> (usize, usize, usize) {
    for (b, al) in alts.iter().enumerate() { for a in al.iter() { if rem.starts_with(a) { return (b, a.len(), rem.len()); } } }
    (99, 0, rem.len())
}
pub fn ref_strip_suffix(rem: &str, alts: &[&[&str]]) -> (usize, usize, usize) {
    for (b, al) in alts.iter().enumerate() { for a in al.iter() { if rem.ends_with(a) { return (b, 0, rem.len() - a.len()); } } }
    (99, 0, rem.len())
}
pub fn ref_find_skip(rem: &str, alts: &[&[&str]]) -> (usize, usize, usize) {
    let rb = rem.as_bytes();
    for pos in 0..=rb.len() { for (b, al) in alts.iter().enumerate() { for a in al.iter() { if rb[pos..].starts_with(a.as_bytes()) { return (b, pos + a.len(), rem.len()); } } } }
    (99, 0, rem.len())
}
pub fn ref_rfind_skip(rem: &str, alts: &[&[&str]]) -> (usize, usize, usize) {
    let rb = rem.as_bytes();
    for end in (0..=rb.len()).rev() { for (b, al) in alts.iter().enumerate() { for a in al.iter() { if rb[..end].ends_with(a.as_bytes()) { return (b, 0, end - a.len()); } } } }
    (99, 0, rem.len())
}
pub fn ref_trim_start(rem: &str, alts: &[&str]) -> (usize, usize, usize) {
    let mut lo = 0;
    loop { match alts.iter().find(|a| rem[lo..].starts_with(**a)) { Some(a) if !a.is_empty() => lo += a.len(), _ => break } }
    (0, lo, rem.len())
}
pub fn ref_trim_end(rem: &str, alts: &[&str]) -> (usize, usize, usize) {
    let mut hi = rem.len();
    loop { match alts.iter().find(|a| rem[..hi].ends_with(**a)) { Some(a) if !a.is_empty() => hi -= a.len(), _ => break } }
    (0, 0, hi)
}
pub fn inputs_over(atoms: &[&str], maxn: usize) -> Vec<String> {
    let mut atoms: Vec<&str> = atoms.iter().copied().filter(|a| !a.is_empty()).collect();
    atoms.sort(); atoms.dedup();
    let mut out = vec![String::new()];
    let mut level = vec![String::new()];
    for _ in 0..maxn { let mut next = Vec::new(); for s in &level { for a in &atoms { next.push(format!("{s}{a}")); } } out.extend(next.iter().cloned()); level = next; }
    out.sort(); out.dedup();
    if out.len() > 3000 { out.truncate(3000); }
    out
}
'''

ESC = ['\\n', '\\r', '\\t', '\\\\', '\\0', "\\'", '\\"', '\\x00', '\\x41', '\\x7F', '\\u{0}', '\\u{e9}', '\\u{E9}', '\\u{00e9}', '\\u{20AC}', '\\u{1F600}', '\\u{1_F600}', '\\u{10FFFF}', '\\u{10_FFFF}', '\\u{7f}']
PAIR_ESC = ['\\n', '\\r', '\\t', '\\\\', '\\"', '\\x41', '\\u{e9}', '\\u{1F600}', '\\0']


def single_literals():
    L = []
    for e in ESC:
        L.append(f'"{e}"')
        L.append(f'"a{e}b"')
    for a, b in itertools.product(PAIR_ESC, repeat=2):
        L.append(f'"{a}{b}"')
    # line continuations (a backslash directly followed by a newline skips following whitespace: space, \t, \n, \r only)
    NL = "\n"
    L += [f'"a\\{NL}   b"', f'"a\\{NL}\t\tb"', f'"a\\{NL}{NL}  {NL}b"', f'"a\\{NL}\u00a0b"', f'"a\\{NL}  \u2003b"', f'"a\\{NL}   "', f'"\\{NL}b"', f'"a\\{NL}\u00a0"', f'"ñ\\{NL} \\u{{e9}}"']
    # after a continuation rustc skips exactly ' ', \t, \n, \r: every other white-space character stays (each one alone, after
    # spaces, and after a second newline), incl. the ASCII ones outside that set (vertical tab, form feed) and the
    # information separators
    for ws in ["\x0b", "\x0c", "\x1c", "\x1f", "\u0085", "\u1680", "\u2000", "\u200a", "\u2028", "\u2029", "\u202f", "\u205f", "\u3000", "\ufeff", "\u200b"]:
        L += [f'"a\\{NL}{ws}b"', f'"a\\{NL}  {ws} b"', f'"\\{NL}{NL}{ws}"']
    # raw strings with 0..2 hashes
    L += ['r"a\\nb"', 'r"\\"', 'r#"a"b"#', 'r##"a"#b"##', 'r#"#"#', 'r"ñ€"', 'r""', 'r#""#', 'r##"""##', 'r"a\\u{e9}"', 'r"😀"']
    # plain
    L += ['""', '"a"', '"ab"', '"ñ"', '"€uro"', '"😀"', '"a ñ\t€"', '"\u00a0"', '"a\'b"']
    # concat! of string literals
    L += ['concat!("a")', 'concat!("a", "b")', 'concat!("a", "\\n", r"c\\d")', 'concat!("ñ", concat!("€", "x"))', 'concat!()', 'concat!("", "a", "")', 'concat!(r#"q"q"#, "\\u{1F600}")', 'concat!("a",)']
    # stringify! of a single identifier (the spelling of multi-token input is not specified by rustc and not part of the property)
    L += ['stringify!(a)', 'stringify!(ab)', 'concat!("a", stringify!(b))', 'concat!(stringify!(a), "ñ")']
    out, seen = [], set()
    for x in L:
        if x not in seen:
            seen.add(x)
            out.append(x)
    return out


def branch_sets():
    pool = ['"a"', '"ab"', '"b"', '""', '"ñ"', '"ñb"', '"aa"', '"ba"']
    sets = []
    for x, y in itertools.permutations(pool, 2):
        sets.append([[x], [y]])
    for x, y, z in [('"a"', '"ab"', '"b"'), ('"ab"', '"a"', '""'), ('"b"', '"ba"', '"a"'), ('"aa"', '"a"', '"ab"'), ('"ñb"', '"ñ"', '"b"'), ('""', '"a"', '"b"'), ('"ba"', '"ab"', '"a"')]:
        sets.append([[x], [y], [z]])
    for x, y, z in [('"a"', '"b"', '"ab"'), ('"ab"', '"a"', '"b"'), ('"ñ"', '"a"', '"ñb"'), ('""', '"a"', '"b"'), ('"a"', '""', '"b"'), ('"aa"', '"a"', '"ba"')]:
        sets.append([[x, y], [z]])
        sets.append([[z], [x, y]])
    return sets


METHODS = ["strip_prefix", "strip_suffix", "find_skip", "rfind_skip", "trim_start_matches", "trim_end_matches"]


def program(name, method, branches, maxn):
    """branches: list of list of literal source texts"""
    lits = [l for b in branches for l in b]
    if method.startswith("trim"):
        pat = " | ".join(lits)
        kcall = f"konst::parser_method!{{parser, {method}; {pat} }} let b = 0usize; let seen = snap(parser, base);"
        refcall = f"ref_{'trim_start' if method == 'trim_start_matches' else 'trim_end'}(rem, &[{', '.join(lits)}])"
    else:
        # every branch (and the default) reads the parser itself: it must already see the advanced (default: unchanged) parser
        arms = " ".join(f"{' | '.join(b)} => {{ seen = snap(parser, base); {i} }}," for i, b in enumerate(branches))
        kcall = f"let mut seen = String::new(); let b: usize = konst::parser_method!{{parser, {method}; {arms} _ => {{ seen = snap(parser, base); 99 }} }};"
        alts = ", ".join("&[" + ", ".join(b) + "]" for b in branches)
        refcall = f"ref_{method}(rem, &[{alts}])"
    body = [
        f"let atoms: Vec<&str> = vec![{', '.join(lits)}, \"z\"];",
        f"for input in inputs_over(&atoms, {maxn}) {{",
        "    for (base, skip) in [(0usize, 0usize), (7, 0), (0, 1)] {",
        "        let input: &str = &input;",
        "        let mk = || { let p = if base == 0 { Parser::new(input) } else { Parser::with_start_offset(input, base) }; if skip == 1 { p.skip(1).skip_back(1) } else { p } };",
        "        let pre = mk();",
        "        let (lo0, rem) = (pre.start_offset() - base, pre.remainder());",
        "        let k = cu(|| { let mut parser = mk(); " + kcall + " let ok = addr_ok(parser, input, base); format!(\"branch={} start={} end={} rem={:?} located={} parser-seen-by-branch={}\", b, parser.start_offset() - base, parser.end_offset() - base, parser.remainder(), ok, seen) });",
        f"        let (rb, rlo, rhi) = {refcall};",
        "        let s = format!(\"branch={} start={} end={} rem={:?} located=true parser-seen-by-branch={}..{} {:?}\", rb, lo0 + rlo, lo0 + rhi, &rem[rlo..rhi], lo0 + rlo, lo0 + rhi, &rem[rlo..rhi]);",
        f"        out.push((format!(\"{{}} on {{:?}} (base {{}}, pre-skip {{}})\", {js(name)}, input, base, skip), k, s));",
        "    }",
        "}",
    ]
    return body


def js(s):
    return '"' + s.replace("\\", "\\\\").replace('"', '\\"').replace("\n", "\\n").replace("\t", "\\t") + '"'


def programs(tier):
    P = []
    maxn = {"quick": 3, "thorough": 4}[tier]
    for lit in single_literals():
        for m in METHODS:
            P.append((f"parser_method!{{p, {m}; {lit}}}", program(f"parser_method!{{p, {m}; {lit}}}", m, [[lit]], maxn)))
    for bs in branch_sets():
        for m in METHODS:
            txt = " ; ".join("|".join(b) for b in bs)
            P.append((f"parser_method!{{p, {m}; {txt}}}", program(f"parser_method!{{p, {m}; {txt}}}", m, bs, maxn)))
    return P


def run(tier, seed, drv):
    rep = {"violations": [], "violations_total": 0, "notes": [], "machinery_errors": [], "samples": [], "nontrivial_samples": []}
    ps = e3.ProgSet("C18", "c18", 16, e3.RUNNER_SUPPORT + SUPPORT_EXTRA)
    allp = programs(tier)
    names = {}
    for i, (name, body) in enumerate(allp):
        names[i] = name
        lines = [f"// program {i}", f"fn p{i}() -> Vec<(String, String, String)> {{", "    let mut out: Vec<(String, String, String)> = Vec::new();"] + ["    " + b for b in body if b] + ["    out", "}"]
        ps.add(i, lines, f"Prog {{ id: {i}, f: p{i} }}")
    ws, rejected, mach = ps.build()
    rep["machinery_errors"] += mach
    if mach:
        return rep
    res, mach = ps.run_all(ws)
    rep["machinery_errors"] += mach
    if mach:
        return rep
    viol = []
    for pid, msg in sorted(rejected.items()):
        # the same literal tokens are valid rustc string expressions (they appear as such in the reference), so the macro must accept them
        viol.append({"engine": "parser_method", "func": names[pid].split(";")[0], "replay": f"prog|{pid}", "case": names[pid], "expected": "compiles (rustc accepts the same literal tokens as &str expressions)", "observed": "rejected: " + msg[:300], "class": "rejected"})
    evals = 0
    nontriv = 0
    for r in res:
        evals += r["n"]
        if r["outcomes"] > 2:
            nontriv += 1
        if r["bad"]:
            fb = r["first_bad"]
            viol.append({"engine": "parser_method", "func": names[r["id"]].split(";")[0], "replay": f"prog|{r['id']}", "case": (names[r["id"]] + ": " + fb["case"]) if r.get("crash") else fb["case"], "expected": fb["std"], "observed": fb["konst"], "class": "mismatch", "bad_cases": r["bad"]})
    rep["violations"] = viol
    rep["violations_total"] = len(viol)
    rep["overflow_classified"] = True
    rep["states"] = len(allp)
    rep["transitions"] = evals
    rep["traces"] = evals
    rep["evaluations"] = evals
    rep["distinct_nontrivial"] = nontriv
    rep["rule"] = "program = parser_method! with one method and a list of literal alternatives/branches; the same literal tokens are used as &str expressions in the reference (rustc decodes them); executed on every input of <= k atoms over the program's own literals plus a foreign char, from Parser::new, with_start_offset(_,7) and a pre-skipped parser; compared: branch taken, start_offset, end_offset, remainder (content and address), and the same three as read by the branch expression itself (a branch runs with the already-advanced parser, the default with the unchanged one); reference: strip = first listed literal that is a prefix/suffix, find = earliest start (rfind: latest end) over all alternatives with ties to the first listed, trim = repeat first listed matching alternative until none or an empty one matches, default branch = parser unchanged; non-trivial = programs with more than two distinct outcomes"
    rep["bounds"] = f"{len(single_literals())} single literals (every escape alone, embedded and in pairs, line continuations followed by spaces/tabs/newlines/non-ASCII spaces, raw strings with 0-2 hashes, multi-byte text, empty, concat!) x 6 methods; {len(branch_sets())} multi-branch sets over [a, ab, b, \"\", ñ, ñb, aa, ba] x 6 methods; inputs <= {dict(quick=3, thorough=4)[tier]} atoms"
    rep["samples"] = [names[0], names[len(names) // 3], names[len(names) // 2], names[len(names) - 1]]
    rep["extra"] = {"programs": len(allp), "rejected_by_rustc": len(rejected), "disagreements_checked": len(viol)}
    return rep
