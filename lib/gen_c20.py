"""C20 (macro part) — str_concat!/str_join!/string::from_iter!/slice_concat! = std concat/join/collect (E3).
Every generated invocation is evaluated by rustc at compile time inside its own const; the result is compared
at run time with <[&str]>::concat / join / String::from_iter / <[&[T]]>::concat on the same data."""
import itertools, time
import e3

PIECES = ['""', '"a"', '"ñb"', '"€"']
CHARS = ["'a'", "'ñ'", "'€'", "'😀'"]
SEPS_S = ['""', '","', '"ñ€"']
SEPS_C = ["','", "'ñ'", "'😀'"]


def lists(alpha, maxn):
    out = [()]
    for n in range(1, maxn + 1):
        out += list(itertools.product(alpha, repeat=n))
    return out


def forms(items, elem_ty, n):
    """the three argument forms the tests use: literal array, const slice, reference to a const array"""
    arr = "[" + ", ".join(items) + "]"
    return [
        ("literal", "", f"&{arr}"),
        ("const slice", f"const S: &[{elem_ty}] = &{arr};", "S"),
        ("&CONST array", f"const A: [{elem_ty}; {n}] = {arr};", "&A"),
    ]


def programs(tier):
    maxn = {"quick": 3, "thorough": 4}[tier]
    P = []
    # str_concat! over strs and chars
    for lst in lists(PIECES, maxn):
        for fname, decl, arg in forms(lst, "&str", len(lst)):
            if not lst and fname != "literal":
                # empty const slices are fine too
                pass
            arr = "[" + ", ".join(lst) + "]"
            P.append((f"str_concat!({fname} {arr})", [decl, f"const K: &str = konst::string::str_concat!({arg});", f"let e: [&str; {len(lst)}] = {arr};",
                      f"out.push((\"str_concat!({fname}) {arr.replace(chr(34), chr(39))}\".to_string(), K.to_string(), e.concat()));"]))
    for lst in lists(CHARS, min(maxn, 3)):
        for fname, decl, arg in forms(lst, "char", len(lst)):
            arr = "[" + ", ".join(lst) + "]"
            P.append((f"str_concat!(chars {fname} {arr})", [decl, f"const K: &str = konst::string::str_concat!({arg});", f"let e: [char; {len(lst)}] = {arr};",
                      f"out.push((\"str_concat!(chars {fname}) {arr}\".to_string(), K.to_string(), e.iter().collect::<String>()));"]))
    # chars at every UTF-8 width boundary (the length pre-computation has to agree with the encoder): alone and in pairs
    EDGE = ["'\\u{7F}'", "'\\u{80}'", "'\\u{7FF}'", "'\\u{800}'", "'\\u{FFFF}'", "'\\u{10000}'", "'\\u{10FFFF}'", "'\\0'"]
    edge_lists = [(c,) for c in EDGE] + [(a, b) for a in EDGE for b in EDGE if a != b][:: (1 if tier == "thorough" else 3)] + [tuple(EDGE)]
    for lst in edge_lists:
        arr = "[" + ", ".join(lst) + "]"
        P.append((f"str_concat!(boundary chars {arr})", [f"const K: &str = konst::string::str_concat!(&{arr});", f"let e: [char; {len(lst)}] = {arr};",
                  f"out.push((\"str_concat!(boundary chars) {arr}\".to_string(), K.to_string(), e.iter().collect::<String>()));"]))
        P.append((f"string::from_iter!(boundary chars {arr})", [f"const A: [char; {len(lst)}] = {arr};", "const K: &str = konst::string::from_iter!(&A);", "const KR: &str = konst::string::from_iter!(&A, rev());",
                  f"out.push((\"from_iter!(boundary chars) {arr}\".to_string(), K.to_string(), A.iter().collect::<String>()));",
                  f"out.push((\"from_iter!(boundary chars, rev()) {arr}\".to_string(), KR.to_string(), A.iter().rev().collect::<String>()));"]))
    for sep in EDGE:
        P.append((f"str_join!(boundary char separator {sep})", [f"const K: &str = konst::string::str_join!({sep}, &[\"a\", \"\", \"ñb\"]);", f"const K1: &str = konst::string::str_join!({sep}, &[\"x\"]);",
                  f"out.push((\"str_join!({sep}, 3 pieces)\".to_string(), K.to_string(), [\"a\", \"\", \"ñb\"].join({sep}.to_string().as_str())));",
                  f"out.push((\"str_join!({sep}, 1 piece)\".to_string(), K1.to_string(), [\"x\"].join({sep}.to_string().as_str())));"]))
    # str_join!
    for lst in lists(PIECES, maxn):
        arr = "[" + ", ".join(lst) + "]"
        for sep in SEPS_S + SEPS_C:
            sep_std = sep if sep.startswith('"') else f"{sep}.to_string().as_str()"
            fl = forms(lst, "&str", len(lst))
            for fname, decl, arg in (fl if sep in ('","', "'ñ'") else fl[:1]):
                P.append((f"str_join!({sep}, {fname} {arr})", [decl, f"const K: &str = konst::string::str_join!({sep}, {arg});", f"let e: [&str; {len(lst)}] = {arr};",
                          f"out.push((\"str_join!({sep.replace(chr(34), chr(39))}, {fname}) {arr.replace(chr(34), chr(39))}\".to_string(), K.to_string(), e.join({sep_std})));"]))
        # separator passed as a const
        P.append((f"str_join!(const SEP, {arr})", ["const SEP: &str = \"ñ€\";", "const SEPC: char = '€';", f"const K: &str = konst::string::str_join!(SEP, &{arr});", f"const KC: &str = konst::string::str_join!(SEPC, &{arr});", f"let e: [&str; {len(lst)}] = {arr};",
                  f"out.push((\"str_join!(const &str sep) {arr.replace(chr(34), chr(39))}\".to_string(), K.to_string(), e.join(SEP)));",
                  f"out.push((\"str_join!(const char sep) {arr.replace(chr(34), chr(39))}\".to_string(), KC.to_string(), e.join(\"€\")));"]))
    # string::a piece / separator of every byte length 0..={dict(quick=40, thorough=130)[tier]} in str_concat!/str_join!/from_iter!; from_iter! with 0..1 adapter
    adapters = [("", "{it}.map(|s| s.to_string()).collect::<String>()"),
                ("rev()", "{it}.rev().map(|s| s.to_string()).collect::<String>()"),
                ("filter(|s| !s.is_empty())", "{it}.filter(|s| !s.is_empty()).map(|s| s.to_string()).collect::<String>()"),
                ("map(|s| *s)", "{it}.map(|s| *s).map(|s| s.to_string()).collect::<String>()"),
                ("flat_map(|s| &[*s, \"-\"])", "{it}.flat_map(|s| [*s, \"-\"]).collect::<String>()"),
                ("skip(1)", "{it}.skip(1).map(|s| s.to_string()).collect::<String>()"),
                ("take(1)", "{it}.take(1).map(|s| s.to_string()).collect::<String>()")]
    for lst in lists(PIECES, min(maxn, 3)):
        arr = "[" + ", ".join(lst) + "]"
        for ad, std in adapters:
            k = f"konst::string::from_iter!(&A" + (f", {ad}" if ad else "") + ")"
            P.append((f"string::from_iter!(&{arr}, {ad})", [f"const A: [&str; {len(lst)}] = {arr};", f"const K: &str = {k};",
                      f"out.push((\"from_iter!(&{arr.replace(chr(34), chr(39))}, {ad.replace(chr(34), chr(39))})\".to_string(), K.to_string(), {std.format(it='A.iter()')}));"]))
    for lst in lists(CHARS, 3):
        arr = "[" + ", ".join(lst) + "]"
        for ad, std in [("", "A.iter().collect::<String>()"), ("rev()", "A.iter().rev().collect::<String>()"), ("copied()", "A.iter().copied().collect::<String>()")]:
            k = f"konst::string::from_iter!(&A" + (f", {ad}" if ad else "") + ")"
            P.append((f"string::from_iter!(chars &{arr}, {ad})", [f"const A: [char; {len(lst)}] = {arr};", f"const K: &str = {k};", f"out.push((\"from_iter!(chars &{arr}, {ad})\".to_string(), K.to_string(), {std}));"]))
    for a, b in [("'a'", "'e'"), ("'\\u{D7FE}'", "'\\u{E001}'"), ("'z'", "'a'"), ("'😀'", "'😂'")]:
        P.append((f"string::from_iter!({a}..={b})", [f"const K: &str = konst::string::from_iter!({a}..={b});", f"const KR: &str = konst::string::from_iter!({a}..={b}, rev());",
                  f"out.push((\"from_iter!({a}..={b})\".to_string(), K.to_string(), ({a}..={b}).collect::<String>()));",
                  f"out.push((\"from_iter!({a}..={b}, rev())\".to_string(), KR.to_string(), ({a}..={b}).rev().collect::<String>()));"]))
    # slice_concat!
    subs = ["&[]", "&[1]", "&[2, 3]", "&[255, 0, 7]"]
    for ty in ["u8", "u16"]:
        for lst in lists(subs, maxn):
            arr = "[" + ", ".join(lst) + "]"
            P.append((f"slice_concat!({ty}, &{arr})", [f"const S: &[&[{ty}]] = &{arr};", f"const K: &[{ty}] = &konst::slice::slice_concat!({ty}, S);", f"const K2: &[{ty}] = &konst::slice::slice_concat!({ty}, &{arr});",
                      f"out.push((\"slice_concat!({ty}, const) {arr}\".to_string(), format!(\"{{:?}}\", K), format!(\"{{:?}}\", S.concat())));",
                      f"out.push((\"slice_concat!({ty}, literal) {arr}\".to_string(), format!(\"{{:?}}\", K2), format!(\"{{:?}}\", S.concat())));"]))
    # ---- long pieces (copy loops that work in blocks of 4, 8 or 16 bytes only show up with pieces longer than a block)
    L17 = '"abcdefghijklmnopq"'
    L33 = '"ñ0123456789ABCDEF€0123456789abcdef"'
    for lst in [(L17,), (L33, '"a"'), ('""', L17, L33), (L33, L33), ('"a"', L17, '"ñb"', L33)]:
        arr = "[" + ", ".join(lst) + "]"
        P.append((f"str_concat!(long pieces {len(lst)})", [f"const K: &str = konst::string::str_concat!(&{arr});", f"let e: [&str; {len(lst)}] = {arr};",
                  f"out.push(({e3js('str_concat!(long pieces) ' + arr)}.to_string(), K.to_string(), e.concat()));"]))
        for sep in ['", "', "'€'", L17]:
            sep_std = sep if sep.startswith('"') else f"{sep}.to_string().as_str()"
            P.append((f"str_join!(long pieces {len(lst)}, sep {sep[:6]})", [f"const K: &str = konst::string::str_join!({sep}, &{arr});", f"let e: [&str; {len(lst)}] = {arr};",
                      f"out.push(({e3js('str_join!(' + sep + ', long pieces) ' + arr)}.to_string(), K.to_string(), e.join({sep_std})));"]))
        P.append((f"string::from_iter!(long pieces {len(lst)})", [f"const A: [&str; {len(lst)}] = {arr};", "const K: &str = konst::string::from_iter!(&A, rev());",
                  f"out.push(({e3js('from_iter!(long pieces, rev()) ' + arr)}.to_string(), K.to_string(), A.iter().rev().copied().collect::<String>()));"]))
    # ---- every piece length (round 15: a block-wise copy that dropped pieces whose byte length is a non-zero multiple of 8):
    # one piece of exactly n bytes for every n up to the bound, between two short pieces, as piece and as separator
    def piece(n):
        asc = "abcdefghijklmnopqrstuvwxyz0123456789"
        fill = lambda k: (asc * (k // len(asc) + 1))[:k]
        if n >= 3 and n % 2 == 1:
            return '"€' + fill(n - 3) + '"'
        if n >= 2:
            return '"ñ' + fill(n - 2) + '"'
        return '"' + fill(n) + '"'
    for n in range(0, {"quick": 41, "thorough": 131}[tier]):
        pn = piece(n)
        arr = f'["x", {pn}, "yz", {pn}]'
        P.append((f"str_concat!(piece of {n} bytes)", [f"const K: &str = konst::string::str_concat!(&{arr});", f"let e: [&str; 4] = {arr};",
                  f"out.push(({e3js('str_concat!(piece of ' + str(n) + ' bytes) ' + arr)}.to_string(), K.to_string(), e.concat()));"]))
        P.append((f"str_join!(piece and separator of {n} bytes)", [f"const K: &str = konst::string::str_join!({pn}, &{arr});", f"let e: [&str; 4] = {arr};",
                  f"out.push(({e3js('str_join!(sep of ' + str(n) + ' bytes) ' + arr)}.to_string(), K.to_string(), e.join({pn})));"]))
        P.append((f"string::from_iter!(piece of {n} bytes)", [f"const A: [&str; 4] = {arr};", "const K: &str = konst::string::from_iter!(&A);",
                  f"out.push(({e3js('from_iter!(piece of ' + str(n) + ' bytes) ' + arr)}.to_string(), K.to_string(), A.iter().copied().collect::<String>()));"]))
    for n1, n2 in [(17, 0), (33, 1), (8, 9), (16, 17), (64, 3)]:
        a1 = "[" + ", ".join(str((i * 7 + 1) % 251) for i in range(n1)) + "]"
        a2 = "[" + ", ".join(str((i * 5 + 2) % 241) for i in range(n2)) + "]"
        for ty in ["u8", "u64"]:
            P.append((f"slice_concat!({ty}, long {n1}+{n2})", [f"const S: &[&[{ty}]] = &[&{a1}, &[], &{a2}];", f"const K: &[{ty}] = &konst::slice::slice_concat!({ty}, S);",
                      f"out.push((\"slice_concat!({ty}, slices of {n1} and {n2} elements)\".to_string(), format!(\"{{:?}}\", K), format!(\"{{:?}}\", S.concat())));"]))
    # ---- item hygiene: `const` items declared inside a macro body are not hygienic, so a user constant of the same name
    # that appears in an argument expression must still mean the user's constant.  The names are read from the macros'
    # own sources (plus a few generic ones), one program per name and macro.
    for nm in internal_item_names():
        P.append((f"str_concat! with a user constant named {nm} in the argument", [f"const {nm}: &str = \"ñb\";", f"const K_: &str = konst::string::str_concat!(&[{nm}, \"c\", {nm}]);",
                  f"out.push((\"str_concat!(&[{nm}, 'c', {nm}]) with const {nm}: &str = 'ñb'\".to_string(), K_.to_string(), [{nm}, \"c\", {nm}].concat()));"]))
        P.append((f"str_join! with user constants named {nm} as separator and piece", [f"const {nm}: &str = \",\";", f"const K_: &str = konst::string::str_join!({nm}, &[\"a\", {nm}, \"b\"]);",
                  f"out.push((\"str_join!({nm}, &['a', {nm}, 'b']) with const {nm}: &str = ','\".to_string(), K_.to_string(), [\"a\", {nm}, \"b\"].join({nm})));"]))
        P.append((f"string::from_iter! with a user constant named {nm}", [f"const {nm}: [&str; 2] = [\"x\", \"€\"];", f"const K_: &str = konst::string::from_iter!(&{nm}, rev());",
                  f"out.push((\"from_iter!(&{nm}, rev()) with const {nm} = ['x', '€']\".to_string(), K_.to_string(), {nm}.iter().rev().copied().collect::<String>()));"]))
        P.append((f"slice_concat! with user constants named {nm} (a piece and an array length)", [f"const {nm}: usize = 2;", f"const K_: &[u8] = &konst::slice::slice_concat!(u8, &[&[7u8; {nm}], &[1], &[{nm} as u8]]);",
                  f"out.push((\"slice_concat!(u8, &[&[7; {nm}], &[1], &[{nm} as u8]]) with const {nm}: usize = 2\".to_string(), format!(\"{{:?}}\", K_), format!(\"{{:?}}\", [&[7u8; {nm}][..], &[1], &[{nm} as u8]].concat())));"]))
    return P


def e3js(t):
    return '"' + t.replace("\\", "\\\\").replace('"', '\\"') + '"'


def internal_item_names():
    """names of `const` items declared inside the bodies of the concatenation macros (read from /repo), plus generic ones"""
    import re, os
    names = {"LEN", "CONC", "STR", "ARR", "N", "OUT", "S", "ARGS", "SLICE", "RET"}
    for f in ["/repo/konst_kernel/src/string/string_for_konst.rs", "/repo/konst_kernel/src/slice/slice_for_konst.rs", "/repo/konst/src/string/concatenation.rs", "/repo/konst/src/string.rs", "/repo/konst/src/slice.rs"]:
        if os.path.exists(f):
            in_macro = False
            for line in open(f, errors="replace"):
                if line.startswith("macro_rules!"):
                    in_macro = True
                elif line.startswith("}"):
                    in_macro = False
                if in_macro and not line.lstrip().startswith("//"):
                    names.update(re.findall(r"\bconst\s+([A-Za-z_][A-Za-z0-9_]*)\s*:", line))
    # names that were obfuscated on purpose (`__ARGS_81608BFNA5`) are the library's way of staying clear of user names:
    # a user constant of exactly that name is not a realistic program and is not demanded
    return sorted(n for n in names if n != "_" and not n.startswith("__"))


def run(tier, seed, drv):
    rep = {"violations": [], "violations_total": 0, "notes": [], "machinery_errors": [], "samples": [], "nontrivial_samples": []}
    ps = e3.ProgSet("C20", "c20", 16, e3.RUNNER_SUPPORT)
    allp = programs(tier)
    names = {}
    for i, (name, body) in enumerate(allp):
        names[i] = name
        lines = [f"// {name}", f"fn p{i}() -> Vec<(String, String, String)> {{", "    let mut out: Vec<(String, String, String)> = Vec::new();"] + ["    " + b for b in body if b] + ["    out", "}"]
        ps.add(i, lines, f"Prog {{ id: {i}, f: p{i} }}")
    ws, rejected, mach = ps.build()
    rep["machinery_errors"] += mach
    if mach:
        return rep
    res, mach = ps.run_all(ws)
    rep["machinery_errors"] += mach
    if mach:
        return rep
    viol = []
    for pid, msg in sorted(rejected.items()):
        viol.append({"engine": "concat", "func": names[pid].split("(")[0], "replay": f"prog|{pid}", "case": names[pid], "expected": "compiles and equals std", "observed": "rejected by rustc / const evaluation failed: " + msg[:400], "class": "rejected"})
    evals = 0
    for r in res:
        evals += r["n"]
        if r["bad"]:
            fb = r["first_bad"]
            viol.append({"engine": "concat", "func": names[r["id"]].split("(")[0], "replay": f"prog|{r['id']}", "case": (names[r["id"]] + ": " + fb["case"]) if r.get("crash") else fb["case"], "expected": fb["std"], "observed": fb["konst"], "class": "mismatch"})
    rep["violations"] = viol
    rep["violations_total"] = len(viol)
    rep["overflow_classified"] = True
    rep["states"] = len(allp)
    rep["transitions"] = evals
    rep["traces"] = evals
    rep["evaluations"] = evals
    rep["distinct_nontrivial"] = sum(1 for n in names.values() if "ñ" in n or "€" in n or "😀" in n)
    rep["rule"] = "program = one macro invocation with constant arguments, evaluated at compile time in its own const; compared at run time with <[&str]>::concat / join / String::from_iter / <[&[T]]>::concat on the same data; a program rustc rejects (incl. a const-evaluation panic) is a violation; non-trivial = invocations involving multi-byte pieces or separators"
    rep["bounds"] = f"{len(allp)} invocations: lists of 0..={dict(quick=3, thorough=4)[tier]} pieces over {PIECES} / chars {CHARS}; separators {SEPS_S + SEPS_C} and const separators; three argument forms (literal array, const slice, &CONST array); a piece / separator of every byte length 0..={dict(quick=40, thorough=130)[tier]} in str_concat!/str_join!/from_iter!; from_iter! with 0..1 adapter (rev, filter, map, flat_map, skip, take, copied) and char ranges incl. the surrogate gap; slice_concat! over u8/u16 lists of lists"
    rep["samples"] = [names[0], names[len(names) // 3], names[len(names) // 2], names[len(names) - 1]]
    rep["extra"] = {"programs": len(allp), "rejected_by_rustc": len(rejected), "disagreements_checked": len(viol)}
    return rep
