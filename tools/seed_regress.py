#!/usr/bin/env python3
"""Re-run the owning quick check against every archived seed, in parallel, in the scratch workers of tools/mutsweep.py
(scratch worktrees of /repo + scratch copies of /verif; neither /repo nor /verif is touched).
Writes seeded/REGRESSION.json: seed -> exit status of the owning check (1 expected for every seed)."""
import json, os, subprocess, sys, threading, queue, glob
sys.path.insert(0, "/verif/tools")
import mutsweep

OWN = {"C04-13": ["C14"]}  # seeds whose owning check is another property's (C04-13 changes Parser::rfind_skip, which C14 pins to the free function)


def sh(cmd, **kw):
    return subprocess.run(cmd, shell=True, stdout=subprocess.PIPE, stderr=subprocess.STDOUT, text=True, errors="replace", **kw)


def main(workers):
    os.environ["MSWEEP_RESYNC"] = "1"
    ws = [mutsweep.setup_worker(i) for i in range(workers)]
    seeds = sorted(os.path.basename(d) for d in glob.glob("/verif/seeded/C*-*"))
    prev = {}
    if os.environ.get("REGRESS_ONLY_FAILED") and os.path.exists("/verif/seeded/REGRESSION.json"):
        # re-run only what was not reported last time (e.g. after a run that was starved of memory); keep the other results
        prev = json.load(open("/verif/seeded/REGRESSION.json"))["results"]
        seeds = [s for s in seeds if s not in prev or "error" in prev[s] or any(v["exit"] != 1 for v in prev[s].values())]
    q = queue.Queue()
    for s in seeds:
        q.put(s)
    res, lock = {}, threading.Lock()

    def work(w):
        while True:
            try:
                s = q.get_nowait()
            except queue.Empty:
                return
            pid = s.split("-")[0]
            sh(f"git -C {w}/repo checkout -q -- . && git -C {w}/repo clean -fdq -e Cargo.lock")
            a = sh(f"git -C {w}/repo apply /verif/seeded/{s}/patch.diff")
            out = {}
            if a.returncode != 0:
                out = {"error": "patch does not apply"}
            else:
                for c in OWN.get(s, [pid]):
                    p = sh(f"cd {w}/verif && timeout 1500 ./check {c} --tier quick", env=dict(os.environ, VERIF_SEED="1"))
                    first = next((l.strip() for l in p.stdout.split("\n") if l.startswith("  ")), "")[:200]
                    out[c] = {"exit": p.returncode, "first": first}
            sh(f"git -C {w}/repo checkout -q -- .")
            with lock:
                res[s] = out
                print(s, {k: v.get("exit") if isinstance(v, dict) else v for k, v in out.items()}, flush=True)
    ts = [threading.Thread(target=work, args=(w,)) for w in ws]
    [t.start() for t in ts]
    [t.join() for t in ts]
    res = {**prev, **res}
    bad = {s: r for s, r in res.items() if "error" in r or any(v["exit"] != 1 for v in r.values())}
    json.dump({"seeds": len(res), "all_reported": not bad, "not_reported": bad, "results": dict(sorted(res.items()))}, open("/verif/seeded/REGRESSION.json", "w"), indent=1)
    print("seeds", len(res), "not reported:", sorted(bad))


if __name__ == "__main__":
    main(int(sys.argv[1]) if len(sys.argv) > 1 else 5)
