#!/bin/bash
# compact cargo build of the harness: errors only
cd /verif/harness && CARGO_NET_OFFLINE=true CARGO_TARGET_DIR=/verif/target cargo build --release --offline "$@" 2>&1 | grep -E "^error" -A12 | grep -vE "^\s*\|?\s*$" | head -${CB_LINES:-80}
