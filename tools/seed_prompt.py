#!/usr/bin/env python3
"""Print the prompt given to a mutation-seeding sub-agent for one property (only the property text + its scratch worktree)."""
import json, sys
pid = sys.argv[1]
suffix = sys.argv[2] if len(sys.argv) > 2 else ""
avoid = sys.argv[3] if len(sys.argv) > 3 else ""
props = {json.loads(l)['id']: json.loads(l) for l in open('/verif/properties.jsonl')}
p = props[pid]
hint = (f" Earlier rounds already changed these places, so pick DIFFERENT functions, macros or mechanisms (read the sources to find the less obvious code paths this property depends on): {avoid}." if avoid else "")
d = f"/tmp/seed/{pid}{suffix}"
o = f"/tmp/seed_out/{pid}{suffix}"
print(f"""You are helping test a verification effort by *seeding realistic bugs* into a Rust library. You have your own scratch git worktree of the library konst (rodrimati1992/konst: const-fn equivalents of std slice/str/Option/iterator methods, a compile-time string Parser, destructure! macro, etc.) at {d} (already created; detached HEAD). Work ONLY inside {d} and {o}. Never touch /repo or /verif (do not even read /verif). The sandbox has no network: always pass --offline to cargo and use `CARGO_TARGET_DIR={d}/target`.

The property under test ({pid}: {p['title']}):

\"\"\"{p['statement']}\"\"\"

Quantified over: {p['quantifier']['text']}

Your job: produce TWO independent, different changes (mutations) to the library *source* (files under konst/src, konst_kernel/src, konst_proc_macros/src — not tests) each of which BREAKS this property while
  (a) the workspace still compiles, and
  (b) the existing test suite still passes: `cd {d} && CARGO_TARGET_DIR={d}/target cargo test --workspace --no-fail-fast --offline 2>&1 | grep -E "^test result|FAILED|failed"` — note 3 tests `konst::string::priv_string_tests::invalid_*` already fail at baseline and must be ignored; every other test that passes at baseline must still pass (doctests included). Run the suite on the unchanged tree first to learn the baseline.
Each change must be *realistic* — the kind of slip a maintainer could make in a refactor or "optimisation": an off-by-one in cursor/offset arithmetic, a swapped end, a comparison `<` vs `<=`, a dropped or weakened guard, a wrong variable reused, state updated in the wrong order, two cooperating sites that each look fine alone — NOT simply deleting a function body or returning a constant. And each must need something *specific* to manifest: a particular unusual input (boundary value, multi-byte char, overlap structure, empty/odd length), a multi-step sequence of operations, a particular combination of arguments — not something that ordinary simple use would expose at once (otherwise the existing tests would catch it). The two changes should touch different functions / mechanisms if possible.{hint}

For each change k in {{1,2}} deliver in {o}/:
  - patch{{k}}.diff : `git -C {d} diff` of the source change only (must apply with `git apply` to a clean checkout of the same commit),
  - demo{{k}}.rs : a self-contained integration test file (to be copied to {d}/konst/tests/seed_demo{{k}}.rs; uses only the public API of konst, compares against std or a hand-computed expected value) that FAILS with the change applied and PASSES on the unchanged tree. Say exactly how to run it (e.g. `cargo test --offline -p konst --features rust_1_83,alloc --test seed_demo{{k}}`; the features `rust_1_83`, `alloc` and `iter`,`parsing`,`cmp` (default) may be enabled if the API needs them),
  - notes{{k}}.md : which file/function was changed, why it breaks the property, what specific input/sequence is needed to manifest, and confirmation (with command output summary) that (1) full test suite passes with the change, (2) demo fails with the change, (3) demo passes without it.
You MUST actually run all three confirmations yourself for each change. When finished, leave the worktree clean of the source change (git -C {d} checkout -- . ; remove the demo test files from the worktree) — the deliverables live in {o}. Do not commit anything. Keep your final answer short: list the two changes in one line each.""")
