#!/bin/bash
# usage: seed_confirm.sh <ID> <k> [<check-ids>]
# Confirms a sub-agent's seeded change in a scratch worktree of /repo (current HEAD):
#  (1) patch applies, workspace builds, the repository's own test suite still passes (only the 3 baseline failures),
#  (2) the demonstration fails with the change, (3) passes without it.
# Then runs our check(s) against it (applied to /repo, reverted straight afterwards) and archives everything
# under /verif/seeded/<ID>-<k>/ (patch.diff, demo.rs, notes.md, meta.json).
ID="$1"; K="$2"; CHECKS="${3:-$ID}"
SRC=/tmp/seed_out/$ID; WT=${SEEDWT:-/tmp/seedwt}; OUT=/verif/seeded/$ID-$K
# PHASE=A: confirmation only (parallelisable: SEEDWT / SEEDWT_TARGET select a private worktree); PHASE=B: checks + archive from the saved state
PHASE=${PHASE:-AB}; STATE=$SRC/state$K; APPLIED=$SRC/applied$K.diff
P=$SRC/patch$K.diff; D=$SRC/demo$K.rs
[ -f "$P" ] || { echo "no patch $P"; exit 2; }
export CARGO_NET_OFFLINE=true CARGO_TARGET_DIR=${SEEDWT_TARGET:-/tmp/seedwt_target}
if [ $PHASE != B ]; then
if [ ! -d $WT ]; then git -C /repo worktree add -f --detach $WT HEAD >/dev/null 2>&1 || exit 2; fi
cd $WT && git checkout -q --detach $(git -C /repo rev-parse HEAD) && git checkout -q -- . && git clean -fdq
if ! git apply "$P" 2>/dev/null; then patch -p1 --fuzz=3 -s < "$P" || { echo "PATCH DOES NOT APPLY"; git checkout -q -- .; exit 3; }; fi
find . -name '*.orig' -delete
git diff > $APPLIED
# (1) repository suite with the change
SUITE=$(cargo test --workspace --no-fail-fast --offline 2>&1 | grep -E "^test result|^test .* FAILED|error(\[|:)" )
NFAIL=$(echo "$SUITE" | grep -c "FAILED$" ); NBASE=$(echo "$SUITE" | grep -c "priv_string_tests::invalid_.* FAILED")
BUILD_ERR=$(echo "$SUITE" | grep -c "^error\[")
SUITE_OK=no; if [ "$BUILD_ERR" = 0 ] && [ "$NFAIL" = "$NBASE" ] && [ "$NBASE" = 3 ]; then SUITE_OK=yes; fi
# (2) demo with the change
cp "$D" konst/tests/seed_demo.rs
DEMO_CMD="cargo test --offline -p konst --features rust_1_83,alloc --test seed_demo"
# MIRI_DEMO=1: the demonstration only fails under the interpreter (UB without a natively visible wrong result)
if [ "${MIRI_DEMO:-0}" = 1 ]; then DEMO_CMD="env MIRIFLAGS=-Zmiri-disable-isolation CARGO_TARGET_DIR=/tmp/seedwt_target_miri cargo +nightly miri test --offline -p konst --features rust_1_83,alloc --test seed_demo"; fi
$DEMO_CMD > /tmp/seed_demo_with_$ID$K.txt 2>&1; RC_WITH=$?
# (3) demo without the change
git checkout -q -- . ; cp "$D" konst/tests/seed_demo.rs
$DEMO_CMD > /tmp/seed_demo_without_$ID$K.txt 2>&1; RC_WITHOUT=$?
rm -f konst/tests/seed_demo.rs; git checkout -q -- .; git clean -fdq
echo "confirm $ID-$K: suite_ok=$SUITE_OK (failed tests: $NFAIL, baseline: $NBASE) demo_with_rc=$RC_WITH demo_without_rc=$RC_WITHOUT"
CONFIRMED=no; if [ $SUITE_OK = yes ] && [ $RC_WITH != 0 ] && [ $RC_WITHOUT = 0 ]; then CONFIRMED=yes; fi
echo "CONFIRMED=$CONFIRMED NFAIL=$NFAIL" > $STATE
if [ $CONFIRMED != yes ]; then echo "  NOT CONFIRMED"; tail -5 /tmp/seed_demo_with_$ID$K.txt | cut -c1-200; tail -3 /tmp/seed_demo_without_$ID$K.txt | cut -c1-200; fi
fi
[ $PHASE = A ] && exit 0
. $STATE
# our checks
RES=""
for C in $CHECKS; do
  /verif/tools/seedtest.sh $APPLIED $C quick > /tmp/seed_check_$C.txt 2>&1; RC=$?
  FIRST=$(grep -a -m1 -A1 "VIOLATION" /tmp/seed_check_$C.txt | tail -1 | cut -c1-300)
  echo $RC > /tmp/seed_check_$C.rc
  RES="$RES $C"
  echo "  check $C exit=$RC $FIRST"
done
if [ $CONFIRMED = yes ]; then
  mkdir -p $OUT; cp $APPLIED $OUT/patch.diff; cp "$D" $OUT/demo.rs; [ -f $SRC/notes$K.md ] && cp $SRC/notes$K.md $OUT/notes.md
  python3 - "$ID" "$K" "$OUT" "$RES" "$NFAIL" <<'PY'
import json,sys,subprocess
pid,k,out,res,nfail=sys.argv[1:6]
head=subprocess.run(['git','-C','/repo','rev-parse','--short','HEAD'],stdout=subprocess.PIPE,text=True).stdout.strip()
notes=open(out+'/notes.md').read() if __import__('os').path.exists(out+'/notes.md') else ''
meta={"property":pid,"seed":f"{pid}-{k}","source":"independent sub-agent given only the property text and a scratch worktree","repo_head_when_confirmed":head,
 "needs_to_manifest":notes.strip()[:900],
 "confirmed":{"suite_passes_with_change":True,"suite_failures_with_change":int(nfail),"baseline_failures":3,"demo_fails_with_change":True,"demo_passes_without_change":True,
   "commands":["cargo test --workspace --no-fail-fast --offline",("cargo +nightly miri test" if __import__("os").environ.get("MIRI_DEMO")=="1" else "cargo test") + " --offline -p konst --features rust_1_83,alloc --test seed_demo (with and without patch.diff)"]},
 "checks_run":[{"check":c,"tier":"quick","exit":int(open(f'/tmp/seed_check_{c}.rc').read()),
    "first_violation":next((l.strip() for l in open(f'/tmp/seed_check_{c}.txt',errors='replace').read().split('\n') if l.startswith('  ')),"")[:300]} for c in res.split()]}
json.dump(meta,open(out+'/meta.json','w'),indent=1)
PY
else
  echo "  NOT CONFIRMED - not kept"
fi
