#!/bin/bash
# Applies each own mutant (mutants/<name>__<CHECK>.diff) to /repo, runs the named quick check (must exit 1), reverts.
# Writes mutants/RESULTS.json. Run only after the E3/thorough background jobs are idle (it edits /repo temporarily).
cd /verif || exit 2
echo "[" > mutants/RESULTS.json.tmp; first=1
for f in mutants/*.diff; do
  base=$(basename "$f" .diff); chk=${base##*__}
  out=$(tools/seedtest.sh "/verif/$f" "$chk" quick 2>&1); rc=$?
  v=$(echo "$out" | grep -a -m1 -A1 VIOLATION | tail -1 | cut -c1-240 | sed 's/\\/\\\\/g; s/"/\\"/g')
  [ $first = 1 ] || echo "," >> mutants/RESULTS.json.tmp; first=0
  echo " {\"mutant\":\"$base\",\"check\":\"$chk\",\"exit\":$rc,\"first_violation\":\"$v\"}" >> mutants/RESULTS.json.tmp
  echo "$base -> $chk exit=$rc"
done
echo "]" >> mutants/RESULTS.json.tmp; mv mutants/RESULTS.json.tmp mutants/RESULTS.json
