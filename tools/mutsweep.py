#!/usr/bin/env python3
"""Development tool (not a registered check): syntactic mutation sweep over konst's sources.

  mutsweep.py gen  [--every K]             -> /tmp/msweep/mutants.jsonl
  mutsweep.py run  --workers W [--limit N] -> /tmp/msweep/results.jsonl   (resumable)
  mutsweep.py report                       -> summary + survivors

Every worker owns a scratch git worktree of /repo (/tmp/msweep/w<i>/repo) and a scratch copy of /verif
(/tmp/msweep/w<i>/verif, every `/repo` path rewritten to the worker's worktree), so neither /repo nor /verif
is touched.  For each single-token mutant the worker applies it, runs the quick checks that own the mutated
file (cheapest first, stopping at the first one that reports a violation) and records
  killed-by=<check> | survived | invalid (does not compile / harness does not build).
Survivors are the interesting output: each is either an equivalent mutant, a change outside every stated
property, or a gap in a check.  The scratch directories are removed by `mutsweep.py clean`.
"""
import json, os, re, subprocess, sys, shutil, time, hashlib
from concurrent.futures import ThreadPoolExecutor

BASE = "/tmp/msweep"
SRC_DIRS = ["konst/src", "konst_kernel/src", "konst_proc_macros/src"]

# file (regex on repo-relative path) -> checks to try, in order
OWNERS = [
    (r"konst/src/slice/slice_const_methods\.rs", ["C02", "C04", "C05", "C06", "C14"]),
    (r"konst/src/slice/bytes_pattern\.rs", ["C04", "C05"]),
    (r"konst/src/slice/slice_iter_methods\.rs", ["C08", "C10"]),
    (r"konst/src/slice/cmp\.rs", ["C16"]),
    (r"konst/src/slice\.rs", ["C02", "C08"]),
    (r"konst_kernel/src/slice/slice_for_konst", ["C02", "C20", "C08"]),
    (r"konst_kernel/src/slice", ["C02", "C08", "C03"]),
    (r"konst_kernel/src/into_iter/slice_into_iter\.rs", ["C08", "C10"]),
    (r"konst_kernel/src/into_iter/range_into_iter\.rs", ["C09", "C10"]),
    (r"konst_kernel/src/step_kk\.rs", ["C09"]),
    (r"konst_kernel/src/into_iter", ["C08", "C09", "C10"]),
    (r"konst/src/range", ["C16", "C09"]),
    (r"konst/src/string/(splitting|split_terminator_items)\.rs", ["C06", "C10"]),
    (r"konst/src/string/chars_methods\.rs", ["C07", "C10"]),
    (r"konst/src/string/pattern\.rs", ["C04", "C05", "C06"]),
    (r"konst/src/string/split_once\.rs", ["C04", "C14", "C06"]),
    (r"konst_kernel/src/macros/control_flow\.rs", ["C09", "C19", "C10"]),
    (r"konst/src/string/concatenation\.rs", ["C20"]),
    (r"konst/src/string\.rs", ["C03", "C04", "C05", "C06", "C07", "C14", "C20"]),
    (r"konst_kernel/src/string/string_for_konst", ["C20", "C03"]),
    (r"konst_kernel/src/string", ["C03", "C07", "C04", "C05", "C06", "C14"]),
    (r"konst(_kernel)?/src/chr", ["C07"]),
    (r"konst/src/parsing/primitive_parsing\.rs", ["C12", "C13", "C14"]),
    (r"konst/src/primitive/cmp", ["C16"]),
    (r"konst/src/primitive", ["C12"]),
    (r"konst/src/parsing", ["C13", "C14", "C12", "C18"]),
    (r"konst/src/macros/parser_method\.rs", ["C18"]),
    (r"konst/src/macros/parsing_macros\.rs", ["C19", "C12", "C13", "C14", "C18"]),
    (r"konst/src/macros/bytes_fn_macros\.rs", ["C05", "C04", "C14"]),
    (r"konst_proc_macros", ["C18", "C17"]),
    (r"konst/src/(cmp|macros/(const_eq|const_ord|declare_cmp|impl_cmp|assert_cmp|polymorphism)|__for_cmp|polymorphism)", ["C16"]),
    (r"konst/src/macros/minmax_macros\.rs", ["C19"]),
    (r"konst/src/(option|result)\.rs|konst_kernel/src/macros/(option|result)_macros_\.rs|konst/src/macros/unwrapping\.rs", ["C19"]),
    (r"konst/src/macros/destructuring\.rs", ["C15", "C17"]),
    (r"konst/src/array|konst_kernel/src/macros/array_macros\.rs|konst_kernel/src/collect_const\.rs", ["C11", "C15", "C10"]),
    (r"konst/src/iter|konst_kernel/src/iter", ["C10", "C17", "C09", "C08"]),
    (r"konst/src/ffi", ["C20"]),
    (r"konst/src/(maybe_uninit|manually_drop|ptr|nonnull)|konst_kernel/src/(maybe_uninit|utils|__unsafe_utils)", ["C15", "C11", "C01"]),
]
DEFAULT_OWNERS = ["C02", "C03", "C08", "C16", "C10"]

OPS = [
    ("lt->le", r"(?<=\s)<(?=\s)", "<="), ("le->lt", r"(?<=\s)<=(?=\s)", "<"),
    ("gt->ge", r"(?<=\s)>(?=\s)", ">="), ("ge->gt", r"(?<=\s)>=(?=\s)", ">"),
    ("eq->ne", r"(?<=\s)==(?=\s)", "!="), ("ne->eq", r"(?<=\s)!=(?=\s)", "=="),
    ("and->or", r"&&", "||"), ("or->and", r"\|\|(?!\s*\{)", "&&"),
    ("plus1->0", r"\+ 1\b(?!\d|\.|_)", "+ 0"), ("minus1->0", r"- 1\b(?!\d|\.|_)", "- 0"),
    ("plus->minus", r"(?<=[\w)\]] )\+(?= [\w(])", "-"), ("minus->plus", r"(?<=[\w)\]] )-(?= [\w(])", "+"),
    ("addassign->sub", r"\+=", "-="), ("subassign->add", r"-=", "+="),
    ("true->false", r"\btrue\b", "false"), ("false->true", r"\bfalse\b", "true"),
    ("not-removed", r"(?<=[\s(])!(?=[a-zA-Z_(])(?!\w+!)", ""),
    ("min->max", r"\bmin\(", "max("), ("max->min", r"\bmax\(", "min("),
    ("sat->wrap", r"\.saturating_sub\(", ".wrapping_sub("),
    ("start->end", r"\bstart\b(?!_)", "end"), ("end->start", r"\bend\b(?!_)", "start"),
    ("0->1", r"(?<=[\s(\[])0(?=[\s;,)\]])", "1"), ("1->0", r"(?<=[= (\[])1(?=[\s;,)\]])", "0"),
    ("some->none", r"\bSome\((?=[a-z_])\w+\)(?=\s*$|\s*[,;}])", "None"),
]


# second set (tag "2"): statement deletion, numeric-constant nudges, inclusive/exclusive range flips, swapped arguments
OPS2 = [
    ("stmt-deleted", r"^(\s*)((?:self\.)?[a-z_][a-zA-Z0-9_.\[\]]*\s*(?:\+|-|\*)?=\s*[^=].*;)\s*$", r"\1"),
    ("hex+1", r"\b0x([0-9A-Fa-f]{2,6})\b", lambda m: "0x%X" % (int(m.group(1), 16) + 1)),
    ("hex-1", r"\b0x([0-9A-Fa-f]{2,6})\b", lambda m: "0x%X" % max(0, int(m.group(1), 16) - 1)),
    ("dec+1", r"(?<=[\s(\[,])([2-9]|[1-9][0-9]{1,3})(?=[\s;,)\]])", lambda m: str(int(m.group(1)) + 1)),
    ("incl->excl", r"\.\.=", ".."),
    ("excl->incl", r"(?<=[\w)])\.\.(?=[\w(])", "..="),
    ("args-swapped", r"\(([a-z_][a-z0-9_.]*), ([a-z_][a-z0-9_.]*)\)", r"(\2, \1)"),
    ("len->len-1", r"\.len\(\)(?!\s*[-+])", ".len() - 1"),
    ("deref-min", r"\bMIN\b", "MAX"),
    ("deref-max", r"\bMAX\b", "MIN"),
]
TAG = ""


def owners(path):
    for rx, cs in OWNERS:
        if re.search(rx, path):
            return cs
    return DEFAULT_OWNERS


def code_lines(path):
    """(lineno, text) of lines that are code: no comments, docs, attributes, test modules, string-only lines."""
    out, in_test, in_test_block, in_block_comment = [], False, False, False
    for n, l in enumerate(open(path, errors="replace").read().split("\n")):
        s = l.strip()
        if in_block_comment:
            if "*/" in s:
                in_block_comment = False
            continue
        if s.startswith("/*"):
            in_block_comment = "*/" not in s
            continue
        if not s or s.startswith("//") or s.startswith("#[") or s.startswith("#!["):
            if "cfg(test)" in s:
                in_test = True
            continue
        if in_test:
            # `#[cfg(test)] mod x;` gates one item; an inline `mod tests {` runs to the end of the file in this code base
            if s.endswith(";") and not in_test_block:
                in_test = False
                continue
            in_test_block = True
            continue
        code = l.split("//")[0]
        out.append((n, code))
    return out


def gen(every):
    os.makedirs(BASE, exist_ok=True)
    muts = []
    for d in SRC_DIRS:
        for dp, dn, fns in os.walk(os.path.join("/repo", d)):
            for fn in sorted(fns):
                if not fn.endswith(".rs") or "test" in fn:
                    continue
                p = os.path.join(dp, fn)
                rel = os.path.relpath(p, "/repo")
                for n, code in code_lines(p):
                    for name, rx, rep in (OPS2 if TAG == "2" else OPS):
                        for m in re.finditer(rx, code):
                            # skip generics / lifetimes / trait bounds heuristically
                            if name in ("lt->le", "gt->ge") and re.search(r"\b(fn|impl|where|struct|enum|type|trait)\b", code):
                                continue
                            if name in ("plus->minus",) and ("'" in code or re.search(r"\b(impl|where|dyn)\b|:\s*\w+\s*\+", code)):
                                continue
                            new = code[: m.start()] + (rep(m) if callable(rep) else m.expand(rep)) + code[m.end():]
                            if new.rstrip() == code.rstrip():
                                continue
                            muts.append({"file": rel, "line": n, "op": name, "col": m.start(), "old": code.rstrip(), "new": new.rstrip()})
    # deterministic thinning: stable hash order, keep every K-th per (file, op)
    muts.sort(key=lambda m: (m["file"], m["line"], m["col"], m["op"]))
    if every > 1:
        keep, cnt = [], {}
        for m in muts:
            k = (m["file"], m["op"])
            cnt[k] = cnt.get(k, 0) + 1
            if (cnt[k] - 1) % every == 0:
                keep.append(m)
        muts = keep
    for i, m in enumerate(muts):
        m["id"] = i
    with open(os.path.join(BASE, f"mutants{TAG}.jsonl"), "w") as f:
        for m in muts:
            f.write(json.dumps(m) + "\n")
    by = {}
    for m in muts:
        by[m["file"]] = by.get(m["file"], 0) + 1
    print(len(muts), "mutants over", len(by), "files")


def sh(cmd, **kw):
    return subprocess.run(cmd, shell=True, stdout=subprocess.PIPE, stderr=subprocess.STDOUT, text=True, **kw)


def setup_worker(i):
    w = f"{BASE}/w{i}"
    if os.path.exists(f"{w}/verif/check") and not os.environ.get("MSWEEP_RESYNC"):
        return w
    os.makedirs(w, exist_ok=True)
    if not os.path.exists(f"{w}/repo"):
        sh(f"git -C /repo worktree add -f --detach {w}/repo HEAD")
    sh(f"cp /repo/Cargo.lock {w}/repo/Cargo.lock")  # git-ignored in /repo, needed by the generated workspaces
    sh(f"rsync -a --exclude .git --exclude target --exclude generated --exclude seeded --exclude mutants --exclude replays --exclude evidence /verif/ {w}/verif/")
    sh(f"grep -rlE '/repo' {w}/verif/check {w}/verif/lib {w}/verif/harness --include='*' | grep -v '/target/' | xargs sed -i 's#\\([^0-9a-z]\\)/repo#\\1{w}/repo#g'")
    return w


def apply(w, m):
    p = f"{w}/repo/{m['file']}"
    lines = open(p, errors="replace").read().split("\n")
    l = lines[m["line"]]
    code = l.split("//")[0]
    assert code.rstrip() == m["old"], (code, m["old"])
    lines[m["line"]] = m["new"] + l[len(code):]
    open(p, "w").write("\n".join(lines))


def run_one(w, m, slow_ok=True):
    sh(f"git -C {w}/repo checkout -q -- .")
    apply(w, m)
    res = {"id": m["id"], "file": m["file"], "line": m["line"] + 1, "op": m["op"], "old": m["old"].strip(), "new": m["new"].strip()}
    t0 = time.time()
    # compile gate: the library itself must still build (with the features the harness uses)
    b = sh(f"cd {w}/repo && CARGO_TARGET_DIR={w}/lib_target cargo check --offline -q -p konst --features rust_1_83,alloc 2>&1 | tail -3")
    if b.returncode != 0 or "error" in b.stdout:
        res["status"] = "invalid"
        return res
    tried = []
    for c in owners(m["file"]):
        if c == "C01" and not slow_ok:
            continue
        p = sh(f"cd {w}/verif && timeout 900 ./check {c} --tier quick", env=dict(os.environ, VERIF_SEED="1"))
        tried.append(c)
        if p.returncode == 1 and "VIOLATION" in p.stdout:
            res.update(status="killed", by=c, first=next((l.strip() for l in p.stdout.split("\n") if l.startswith("  ")), "")[:200])
            break
        if p.returncode not in (0, 1, 2, 124) or (p.returncode == 1 and "VIOLATION" not in p.stdout):
            res.update(status="driver-crash", by=c, first=p.stdout.strip().split("\n")[-1][:200])
            break
        if p.returncode == 124:
            res.update(status="timeout", by=c)
            break
        if p.returncode == 2:
            # harness / generated programs no longer build: the mutant changed an API the harness relies on -> noticed, but as machinery
            res.update(status="machinery", by=c, first=p.stdout.strip().split("\n")[-1][:200])
            break
    else:
        res["status"] = "survived"
    res["tried"] = tried
    res["secs"] = round(time.time() - t0, 1)
    return res


def run(workers, limit, files_rx):
    muts = [json.loads(l) for l in open(f"{BASE}/mutants{TAG}.jsonl")]
    done = set()
    rp = f"{BASE}/results{TAG}.jsonl"
    if os.path.exists(rp):
        done = {json.loads(l)["id"] for l in open(rp)}
    todo = [m for m in muts if m["id"] not in done and (not files_rx or re.search(files_rx, m["file"]))]
    if limit:
        todo = todo[:limit]
    ws = [setup_worker(i) for i in range(workers)]
    import threading, queue
    q = queue.Queue()
    for m in todo:
        q.put(m)
    lock = threading.Lock()

    def work(w):
        while True:
            try:
                m = q.get_nowait()
            except queue.Empty:
                return
            try:
                r = run_one(w, m)
            except Exception as e:  # noqa
                r = {"id": m["id"], "file": m["file"], "status": "error", "first": repr(e)[:200]}
            with lock:
                with open(rp, "a") as f:
                    f.write(json.dumps(r) + "\n")
                print(r["id"], r["file"], r.get("line"), r["op"] if "op" in r else "", r["status"], r.get("by", ""), r.get("secs", ""), flush=True)
    ts = [threading.Thread(target=work, args=(w,)) for w in ws]
    [t.start() for t in ts]
    [t.join() for t in ts]
    for w in ws:
        sh(f"git -C {w}/repo checkout -q -- .")


def report():
    rs = [json.loads(l) for l in open(f"{BASE}/results{TAG}.jsonl")]
    st = {}
    for r in rs:
        st[r["status"]] = st.get(r["status"], 0) + 1
    print(st)
    for r in rs:
        if r["status"] in ("survived", "error"):
            print(f"{r['id']:5} {r['file']}:{r.get('line')} [{r.get('op')}] tried={r.get('tried')}\n        - {r.get('old')}\n        + {r.get('new')}")


def clean():
    for d in sorted(os.listdir(BASE)) if os.path.exists(BASE) else []:
        if d.startswith("w"):
            sh(f"git -C /repo worktree remove --force {BASE}/{d}/repo")
            shutil.rmtree(f"{BASE}/{d}", ignore_errors=True)
    sh("git -C /repo worktree prune")


if __name__ == "__main__":
    a = sys.argv[1:]
    def opt(name, default=None):
        return a[a.index(name) + 1] if name in a else default
    TAG = opt("--tag", "")
    if a[0] == "gen":
        gen(int(opt("--every", "1")))
    elif a[0] == "run":
        run(int(opt("--workers", "4")), int(opt("--limit", "0")), opt("--files"))
    elif a[0] == "report":
        report()
    elif a[0] == "clean":
        clean()
