#!/usr/bin/env python3
"""Regenerates the table of archived seeds in DESIGN.md (between the SEED-TABLE markers) from seeded/*/meta.json."""
import json, glob, os, re
ROOT = os.path.dirname(os.path.dirname(os.path.abspath(__file__)))
rows = []
for d in sorted(glob.glob(os.path.join(ROOT, "seeded", "C*-*"))):
    m = json.load(open(os.path.join(d, "meta.json")))
    notes = open(os.path.join(d, "notes.md")).read() if os.path.exists(os.path.join(d, "notes.md")) else ""
    title = next((l.strip("# ").strip() for l in notes.splitlines() if l.strip()), "")[:110]
    det = ", ".join(c["check"] for c in m["checks_run"] if c["exit"] == 1) or "—"
    fv = next((c["first_violation"] for c in m["checks_run"] if c["exit"] == 1), "")[:120].replace("|", "/")
    fv = "".join(ch if (32 <= ord(ch) < 0xFFF0 and not 0xD800 <= ord(ch) < 0xE000) else f"\\u{{{ord(ch):x}}}" for ch in fv)
    rows.append(f"| {m['seed']} | {title.replace('|','/')} | {det} | `{fv}` |")
table = "| seed | change (title of the author's notes) | reported by (quick) | first violation printed |\n|---|---|---|---|\n" + "\n".join(rows)
p = os.path.join(ROOT, "DESIGN.md")
s = open(p).read()
a = s.index("<!-- SEED-TABLE-BEGIN -->"); b = s.index("<!-- SEED-TABLE-END -->")
s = s[:a] + "<!-- SEED-TABLE-BEGIN -->\n" + table + "\n" + s[b:]
open(p, "w").write(s)
print(len(rows), "seeds")
