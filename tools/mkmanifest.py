#!/usr/bin/env python3
"""Regenerates /verif/MANIFEST.json from the table below (keeps it valid and consistent)."""
import json, os, subprocess

ROOT = os.path.dirname(os.path.dirname(os.path.abspath(__file__)))

COMMON_NOTE = ("Trusted base: rustc 1.95 + std as reference semantics; cargo change detection (harness depends on /repo by path, rebuilt every run); "
               "bounded: complete only inside the bounds written to the evidence file; debug-assertions and overflow-checks are on in the checked build.")

# property -> (technique, level text, design ref, extra note)
CHECKS = {
 "C02": ("bounded exhaustive input enumeration of the real functions (every length x every index/index pair x every element type), lock-step against std by address",
         "Every slice length up to the bound, every index from a set straddling each guard (0..=len+2, isize::MAX±1, usize::MAX-1, usize::MAX), every pair of them, six element types incl. two ZSTs and a Drop type, every indexing/splitting/array/chunk function: the real function is executed and compared with std by address and length; _mut variants additionally by writing a sentinel through the result. Complete within the bounds, so an off-by-one in any guard is found at the smallest length that exhibits it.",
         "3/C02"),
 "C03": ("bounded exhaustive input enumeration (all strings over a 1-4-byte-char alphabet x all byte indices/pairs; every char of a boundary-complete set in context), lock-step against std",
         "All strings up to the bound over one char of each UTF-8 length plus single-char context strings for a boundary-complete char set (thorough: every Unicode scalar value), every byte index and index pair incl. out-of-range and usize::MAX; results compared with str::get / is_char_boundary / split_at by address; clamping variants must panic exactly when an in-range index is inside a char.",
         "3/C03"),
 "C04": ("bounded exhaustive enumeration of all haystack x needle pairs over small alphabets (every overlap structure up to the bound), all four pattern kinds, against a naive window search cross-checked with std",
         "Every (haystack, needle) pair over {a,b}, {a,b,c}, a raw-byte alphabet and a multi-byte alphabet up to the length bounds - which contain every self-overlap structure of needles up to that length - through every search entry point and pattern kind, compared by offset and by address. A labelled random supplement on longer inputs is reported separately and is not the deciding step.",
         "3/C04"),
 "C05": ("bounded exhaustive enumeration of all input x pattern pairs and of all byte strings over every ASCII whitespace/control class, lock-step against std strip/trim/trim_ascii",
         "All inputs x patterns over small alphabets (incl. empty, longer-than-input and self-overlapping patterns), four pattern kinds, and all byte strings of length <= 2 over all 256 byte values plus longer strings over every whitespace/control class, compared with std by address and length.",
         "3/C05"),
 "C16": ("bounded exhaustive enumeration of all ordered pairs (and triples for transitivity) of values per supported type through every comparison entry point, against PartialEq/Ord",
         "All ordered pairs of slices over {MIN,mid,MAX} up to the length bound for each of the 14 primitive element types, all pairs of strings, slices of strings/byte slices, boundary scalars (u8/i8 complete), NonZero, ranges, Ordering, and all Option combinations, through every eq_*/cmp_* function, CmpWrapper, const_eq!/const_cmp!/const_eq_for!/const_cmp_for! (all four argument forms) and assertc_eq!/assertc_ne!; plus antisymmetry/consistency on all pairs and transitivity on all triples.",
         "3/C16"),
 "C06": ("bounded exhaustive enumeration of all (string, delimiter) pairs x every split iterator kind, stepped to exhaustion with the remainder checked after every step, lock-step against std's split family",
         "Every input x delimiter (str and char, incl. empty, adjacent, leading, trailing, overlapping, multi-byte) up to the bounds through split, rsplit, split_terminator, rsplit_terminator and the reversed types: every piece compared with std by content and address, remainder() after every step compared with the not-yet-split part of the input derived from std's piece positions, termination enforced by a step cap.",
         "3/C06"),
 "C07": ("complete enumeration of every char / every u32 < 0x120000 for the conversions; exhaustive next/next_back history trees on all strings up to a bound, lock-step against str::chars/char_indices",
         "encode_utf8 on every Unicode scalar value and from_u32 on every u32 below 0x120000 plus boundaries (complete); for chars/char_indices and their reversed types every interleaving of front and back steps on all strings up to the bound over one char per UTF-8 length and on context strings for a boundary-complete char set, comparing items, offsets and as_str() by address at every node.",
         "3/C07"),
 "C08": ("exhaustive exploration of every next/next_back history (tree search from copies) of every slice iterator kind x direction variant x size x length, lock-step against the std iterator of the same name",
         "For every slice length up to the bound, every size 0..=len+1 (0 must panic), element types incl. a ZST and a Drop type, the eight iterator kinds in forward, rev() and rev().rev() form: every sequence of front/back steps until both ends report None, children made from copy(); items, as_slice() and remainder() compared with std by address and length at every node.",
         "3/C08"),
 "C09": ("explicit-state graph search with hooked canonical states: every (start,end) pair of the 8-bit types is a state of each range iterator type and both transitions are compared with std on the abstraction (complete bisimulation); boundary closures for wider types; hook-independent history trees",
         "u8/i8: all 65536 (start,end) pairs x 4 iterator types x {next,next_back} with the post-state read through the __verif_bounds hook and compared with the std range built from the abstract state - closed under both transitions, hence every interleaving on every 8-bit range; wider integers and char: closure from MIN/MAX/0/surrogate-gap neighbourhoods to a depth bound; RangeFrom from every start; for_each!/eval!/for_range!/collect_const! over all 8-bit pairs; plus value-only history trees that do not rely on the hook. The range is also driven as an adapter argument (zip argument, flat_map body) in forward and reversed chains over all 8-bit pairs.",
         "3/C09"),
 "C12": ("bounded exhaustive input enumeration (every value of the 8/16-bit types, all short strings over a digit/sign/letter alphabet, MIN/MAX neighbourhoods per type) against str::parse and a big-integer prefix model",
         "Whole-string parse_* against str::parse (leading '+' rejected), prefix parsing through Parser::parse_* and parse_with! against an optional-minus + longest-digit-run model with checked 128-bit accumulation, for all 12 integer types and bool, with every suffix from a small set; remainder by address, offsets, error kind and error offset checked. The alphabet contains the ASCII neighbours of the digit range, and every ASCII char is placed in every position of short digit templates.",
         "3/C12"),
 "C13": ("explicit-state graph search to a fixed point over all reachable Parser states per input (every operation from every state; operations only shrink the remainder, so the closure covers sequences of any length), state invariant checked in every state",
         "For every input up to the bound and three constructors, BFS over the states (start_offset, end_offset, one-shot flag, direction) under ~80 operations to closure, with shortest traces: in every reached state the remainder must be, by address, original[start..end] with both offsets on char boundaries; every Err must carry the pre-state's start (from-start ops) or end (from-end ops) offset and name that end. A labelled random-walk supplement on long inputs is reported separately.",
         "3/C13"),
 "C14": ("same explicit-state graph as C13: every transition compared with the free string functions (by address) and a std-based reference model; split protocols replayed from every initial state",
         "On every transition of the Parser state graph: post-remainder equals what string::{strip_*,trim*,trim_*_matches,find_skip,rfind_skip} compute from the pre-remainder and what a boring std-based model predicts (split_once/rsplit_once/find/prefix-integer/bool), Ok iff the reference finds something, documented error kind, returned piece/number; repeating split/rsplit/split_terminator/rsplit_terminator from each initial state against str::split/rsplit.",
         "3/C14"),
 "C10": ("program-space exploration: all adapter chains up to a depth bound generated from the method grammar (std-typeable compositions only) x all consumers, compiled by rustc and run on all small input arrays next to the identical std chain",
         "Every chain of the 20 adapter instances up to the depth bound over 8 sources (slices, ranges, slice iterators, string::chars/split, nested slices) x for_each!/14 eval! consumers/collect_const!, each executed on every input array over a small alphabet up to the length bound and compared with the same std chain (enumerate as EnumInOrder, rposition as rev().position()); unexpected rejections by rustc are violations; the known deviation (order-sensitive adapter before a reversal) is matched behaviourally against the reverse-hoisted model and reported as KNOWN-FINDING F7.",
         "3/C10"),
 "C11": ("program-space exploration of array-macro invocations x closure behaviours (every early-exit kind at every element) plus exhaustive operation histories on ArrayBuilder with a reference model",
         "array::map!/map_!/from_fn!/from_fn_!/collect_const! for every length up to the bound, element types, parameter forms and closure behaviours (well-behaved or break/continue/return/?/labelled break/continue/panic at each element): well-behaved programs must equal std, hostile ones must not yield any array other than std's; ArrayBuilder: every push/build/clone/drop history up to depth N+4 incl. over- and under-filling against a vec model. collect_const! = Iterator::collect on all chains of up to 2 direction-sensitive adapters and every 3-chain containing rev() (const context, 4 inputs), plus open ranges a.. driven up to T::MAX by take(n); F7-shaped disagreements are the known finding only if they equal the reverse-hoisted model.",
         "3/C11"),
 "C15": ("exhaustive exploration by re-execution of every operation history on ArrayConsumer/ArrayBuilder over a drop-tracking element type with a ledger; program-space exploration of every destructure! pattern shape",
         "Every next/next_back/drop/assert_is_empty/clone history (two live objects, start from new() or empty()) up to depth N+4 for N<=4 with as_slice checked and as_mut_slice written after every step: the ledger must show each element handed out or dropped exactly once, in order, payload intact; map_!/from_fn_! with a closure panicking at each element, map_! with the mapper leaving through return / ? / labelled break at each element (ledger must balance exactly); destructure! over braced/tuple structs, tuples of arity 1..=16, arrays with every prefix/rest/suffix split, `_`, `..`, packed and generic/ZST fields, checking bound values, immediate drops and the final ledger. The same histories and destructure! shapes are repeated over a zero-sized element type with a destructor (counter ledger).",
         "3/C15"),
 "C19": ("program-space exploration: every option::/result:: macro x argument form x every small input, try_!/try_opt!, rebind macros for every arity 1..=6 x position kinds, min/max family on all pairs of keyed values, each next to its std counterpart",
         "Each macro and accepted argument form (closure, function path) on every value of its small input set with value and fallback-call-count compared with std; try_rebind!/rebind_if_ok! for arities 1..=6 (all kind assignments up to arity 3, uniform and single-position variations above, places that alias or depend on earlier components), rejections by rustc count as violations; min!/max!/_by/_by_key on all ordered pairs of (key,id) values and on all pairs of boundary values of each of the 12 primitive integer types. Unparenthesised single-target rebind forms and whole-pattern annotations are included; min/max operands are also given as expressions whose evaluation is counted (exactly once each).",
         "3/C19"),
 "C20": ("program-space exploration of constant argument lists for str_concat!/str_join!/from_iter!/slice_concat! evaluated at compile time, plus exhaustive byte strings for the CStr functions, against std",
         "All lists of 0..=3 pieces over an alphabet with multi-byte strings/chars x all separators x three argument forms, a piece and a separator of every byte length 0..=40 (thorough 130), each evaluated by rustc in its own const and compared with concat/join/collect at run time; CStr constructors and conversions on all byte strings up to length 6 over {0,'a',C3,B1,FF} against core::ffi::CStr (success agreement, equal CStr, bytes by address).",
         "3/C20"),
 "C01": ("three monitors over the bounded explorations of the other properties: the Miri interpreter on the reduced-bound explorers (one interpreter process per engine), rustc's const evaluator on a battery of const-fn drivers, and a native sub-range/UTF-8 oracle on every returned slice/str",
         "Run-time UB: every explorer of C02-C09, C15, C20 (thorough: also C12, C13, C16) plus a driver for maybe_uninit/manually_drop/ptr/nonnull/array macros/destructure!/DSL macros executed under Miri at an interpreter-sized bound; compile-time UB: const-fn drivers that loop over small alphabets through every unsafe-backed safe function and macro form inside `const` items (error[E0080] = violation); location/UTF-8: every non-empty result of the string engines must lie inside its argument on char boundaries. Coverage of `unsafe` sites is bound by harness/unsafe_sites.json (unmapped files are reported). The native stage also re-runs the C07 exploration with a valid-char oracle (every yielded char must be a Unicode scalar value).",
         "3/C01"),
 "C17": ("program-space exploration, compile-only: one generated program per (guard x syntactic shape) and a minimally different control, decided by rustc through cargo check --keep-going --message-format=json",
         "About 310 generated bin targets: every misuse listed in the property (destructure! on Drop types, references, wrong counts, `..`; DSL double reversal, unsupported methods, arguments to argument-less methods; parser_method! non-literal patterns in every position of the pattern grammar incl. concat! arguments, missing/extra default branch) in every syntactic shape the macro accepts, each with a control that differs only by the offending element; invalid must be rejected, control must compile; diagnostics are recorded, not matched.",
         "3/C17"),
 "C18": ("program-space exploration: generated literal sets x six methods, each program run on all inputs over its own literals; the same literal tokens are decoded by rustc in the reference",
         "Every escape kind alone, embedded and in pairs, line continuations followed by every whitespace class, raw strings with 0-2 hashes, multi-byte text, the empty literal and concat!, plus multi-branch sets with prefix-related literals, for strip_prefix/strip_suffix/find_skip/rfind_skip/trim_start_matches/trim_end_matches; inputs are all strings of up to 3 atoms over the program's literals and a foreign char, from three parser states; branch taken, offsets and remainder (content and address) - after the macro and as read by the branch expression itself - compared with a reference that uses the same literal tokens as &str expressions.",
         "3/C18"),
}

NOT_APPLICABLE = {}


def main():
    props = [json.loads(l)["id"] for l in open(os.path.join(ROOT, "properties.jsonl"))]
    hooks_commits = subprocess.run(["git", "-C", "/repo", "log", "--format=%H", "--grep", "^verif hook"], stdout=subprocess.PIPE, text=True).stdout.split()
    m = {
        "version": 1,
        "setup_cmd": "./check --setup",
        "hooks": {
            "guard": "cargo feature `__verif` of konst_kernel (off by default)",
            "enable": "harness crates depend on konst_kernel = { path = \"/repo/konst_kernel\", features = [\"__verif\"] }",
            "baseline_off_cmd": "cd /repo && cargo test --workspace --no-fail-fast --offline",
            "source_commits": hooks_commits,
            "add_only": True,
        },
        "engines": [
            {"name": "e3", "path": "lib", "serves_properties": ["C10", "C11", "C15", "C17", "C18", "C19", "C20"], "kind_free_text": "python generators of finite program families (macro invocations from a grammar), compiled by the real rustc against /repo and executed next to std; compile-fail families decided by cargo check --message-format=json"},
            {"name": "rt", "path": "harness/rt", "serves_properties": sorted(CHECKS), "kind_free_text": "native bounded-exhaustive explorers (input enumeration, history trees, state graphs) running the real konst code lock-step with std reference objects"},
        ],
        "checks": [],
        "not_applicable": [],
        "notes": "All checks: ./check <ID> --tier quick|thorough ; exit 0 held / 1 VIOLATION / 2 machinery. known_findings.json lists genuine defects (fixed ones suppress nothing).",
    }
    for pid in props:
        if pid in CHECKS:
            tech, text, ref = CHECKS[pid][:3]
            m["checks"].append({
                "property_id": pid,
                "quick_cmd": f"./check {pid} --tier quick",
                "thorough_cmd": f"./check {pid} --tier thorough",
                "evidence_file": f"/verif/evidence/{pid}.json",
                "replay_cmd_template": f"./check {pid} --replay {{path}}",
                "engine": "rt" if pid not in ("C10", "C17", "C18", "C19", "C01") else "e3",
                "level_claimed": {"category": "model_checking", "text": text, "design_ref": f"DESIGN.md section {ref}"},
                "level_note": COMMON_NOTE,
                "technique": tech,
            })
        else:
            m["not_applicable"].append({"property_id": pid, "reason": NOT_APPLICABLE.get(pid, "check under construction in this round (not yet claimed); planned per DESIGN.md section 3")})
    json.dump(m, open(os.path.join(ROOT, "MANIFEST.json"), "w"), indent=1)
    print("MANIFEST.json:", len(m["checks"]), "checks,", len(m["not_applicable"]), "not claimed")


if __name__ == "__main__":
    main()
