#!/bin/bash
# usage: seedtest.sh <patch.diff> <ID> [tier]   -- apply a seeded change to /repo, run the check, undo it straight afterwards
P="$1"; ID="$2"; TIER="${3:-quick}"
cd /repo || exit 2
if [ -n "$(git status --porcelain --untracked-files=no)" ]; then echo "/repo not clean"; exit 2; fi
case "$P" in /*) ;; *) P="/verif/$P";; esac
if ! git apply "$P" 2>/dev/null; then
  if ! patch -p1 --fuzz=3 -s < "$P"; then echo "PATCH DOES NOT APPLY: $P"; git checkout -- .; git clean -fdq -e target; exit 3; fi
fi
# the evidence file describes the unchanged tree: keep it across a seeded run
EV=/verif/evidence/$ID.json; [ -f $EV ] && cp $EV /tmp/seedtest_ev_$ID.json
cd /verif && timeout 3000 ./check "$ID" --tier "$TIER" > /tmp/seedtest.out 2>&1; RC=$?
[ -f /tmp/seedtest_ev_$ID.json ] && mv /tmp/seedtest_ev_$ID.json $EV
git -C /repo checkout -- . ; find /repo -name '*.orig' -not -path '*/target/*' -delete; find /repo -name '*.rej' -not -path '*/target/*' -delete
echo "seed $(basename $(dirname $P))/$(basename $P) check=$ID tier=$TIER exit=$RC"; grep -m3 -A1 "VIOLATION\|MACHINERY" /tmp/seedtest.out
exit $RC
