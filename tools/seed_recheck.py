#!/usr/bin/env python3
"""seed_recheck.py <seed-dir-name> [check ids...]: re-run the owning quick check(s) against an archived seed and refresh
meta.json's checks_run (the confirmation of the seed itself - suite passes, demo fails/passes - is not repeated)."""
import json, os, subprocess, sys
name = sys.argv[1]
d = f"/verif/seeded/{name}"
meta = json.load(open(f"{d}/meta.json"))
checks = sys.argv[2:] or [meta["property"]]
runs = []
for c in checks:
    p = subprocess.run(["/verif/tools/seedtest.sh", f"{d}/patch.diff", c, "quick"], stdout=subprocess.PIPE, stderr=subprocess.STDOUT, text=True)
    out = open("/tmp/seedtest.out", errors="replace").read()
    first = next((l.strip() for l in out.split("\n") if l.startswith("  ")), "")[:300]
    runs.append({"check": c, "tier": "quick", "exit": p.returncode, "first_violation": first})
    print(name, c, "exit", p.returncode, first[:160])
others = [r for r in meta.get("checks_run", []) if r["check"] not in checks]
meta["checks_run"] = others + runs
json.dump(meta, open(f"{d}/meta.json", "w"), indent=1)
