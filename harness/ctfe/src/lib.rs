//! C01 compile-time battery: *building this crate is the check*. Every `const _` below is a const-fn driver that
//! loops over small alphabets and calls the unsafe-backed safe API of konst inside rustc's const evaluator, which
//! rejects undefined behaviour (out-of-bounds pointer arithmetic, reads of uninitialised memory, invalid values)
//! with `error[E0080]`. Functional asserts are kept minimal (other properties own them); a failing assert is also
//! a const-eval error and is reported with the driver's name.
#![allow(long_running_const_eval, clippy::all, unused)]

use konst::{slice as ks, string as kst};

const IDX: [usize; 9] = [0, 1, 2, 3, 4, 5, 6, isize::MAX as usize, usize::MAX];

macro_rules! slices_of {
    ($T:ty, $arr:expr) => {{
        let arr: [$T; 4] = $arr;
        let mut len = 0;
        while len <= 4 {
            let s: &[$T] = ks::slice_up_to(&arr, len);
            let mut i = 0;
            while i < IDX.len() {
                let a = IDX[i];
                let _ = ks::get(s, a);
                let _ = ks::slice_from(s, a).len();
                let _ = ks::slice_up_to(s, a).len();
                let _ = ks::get_from(s, a);
                let _ = ks::get_up_to(s, a);
                let (l, r) = ks::split_at(s, a);
                assert!(l.len() + r.len() == s.len());
                let mut j = 0;
                while j < IDX.len() {
                    let b = IDX[j];
                    let x = ks::slice_range(s, a, b);
                    assert!(x.len() <= s.len());
                    let _ = ks::get_range(s, a, b);
                    j += 1;
                }
                i += 1;
            }
            let _ = ks::try_into_array::<$T, 0>(s);
            let _ = ks::try_into_array::<$T, 2>(s);
            let _ = ks::try_into_array::<$T, 4>(s);
            let (c, rem) = ks::as_chunks::<$T, 1>(s);
            assert!(c.len() + rem.len() == s.len());
            let (c, rem) = ks::as_chunks::<$T, 3>(s);
            assert!(c.len() * 3 + rem.len() == s.len());
            let (rem, c) = ks::as_rchunks::<$T, 3>(s);
            assert!(c.len() * 3 + rem.len() == s.len());
            len += 1;
        }
    }};
}
macro_rules! slices_mut_of {
    ($T:ty, $arr:expr, $v:expr) => {{
        let mut len = 0;
        while len <= 4 {
            let mut i = 0;
            while i < IDX.len() {
                let a = IDX[i];
                let mut arr: [$T; 4] = $arr;
                let s: &mut [$T] = ks::slice_up_to_mut(&mut arr, len);
                if let Some(x) = ks::get_mut(s, a) { *x = $v; }
                let m = ks::slice_from_mut(s, a);
                if let [x, ..] = m { *x = $v; }
                let m = ks::slice_up_to_mut(s, a);
                if let [.., x] = m { *x = $v; }
                let _ = ks::get_from_mut(s, a);
                let _ = ks::get_up_to_mut(s, a);
                let (l, r) = ks::split_at_mut(s, a);
                if let [x, ..] = l { *x = $v; }
                if let [.., x] = r { *x = $v; }
                let mut j = 0;
                while j < IDX.len() {
                    let b = IDX[j];
                    let m = ks::slice_range_mut(s, a, b);
                    if let [x, ..] = m { *x = $v; }
                    let _ = ks::get_range_mut(s, a, b);
                    j += 1;
                }
                let _ = ks::first_mut(s);
                let _ = ks::last_mut(s);
                let _ = ks::split_first_mut(s);
                let _ = ks::split_last_mut(s);
                let _ = ks::try_into_array_mut::<$T, 2>(s);
                i += 1;
            }
            len += 1;
        }
    }};
}

const fn driver_slices() {
    slices_of!(u8, [1, 2, 3, 4]);
    slices_of!(u64, [1, 2, 3, 4]);
    slices_of!((), [(), (), (), ()]);
    slices_of!([u8; 3], [[1; 3], [2; 3], [3; 3], [4; 3]]);
    slices_mut_of!(u8, [1, 2, 3, 4], 9);
    slices_mut_of!(u64, [1, 2, 3, 4], 9);
    slices_mut_of!((), [(), (), (), ()], ());
    // zero-sized elements allow slices longer than isize::MAX
    let big: [(); usize::MAX] = [(); usize::MAX];
    let mut i = 0;
    while i < IDX.len() {
        let a = IDX[i];
        let _ = ks::slice_from(&big, a).len();
        let _ = ks::slice_up_to(&big, a).len();
        let (l, r) = ks::split_at(&big, a);
        assert!(l.len() == a && r.len() == usize::MAX - a);
        let (c, rem) = ks::as_chunks::<(), 7>(ks::slice_up_to(&big, a));
        assert!(c.len() == a / 7 && rem.len() == a % 7);
        i += 1;
    }
}
const _: () = driver_slices();

const STRS: [&str; 7] = ["", "a", "ñ", "a€", "😀b", "ab,ñ,,€", "  \t a \n"];
const PATS: [&str; 6] = ["", "a", "ñ", ",", "€b", "ab,ñ,,€x"];
const CHARS: [char; 4] = ['a', 'ñ', '€', '😀'];

const fn driver_strings() {
    let mut si = 0;
    while si < STRS.len() {
        let s = STRS[si];
        let mut i = 0;
        while i <= s.len() + 2 {
            let b = kst::is_char_boundary(s, i);
            let _ = kst::get_from(s, i);
            let _ = kst::get_up_to(s, i);
            if b || i >= s.len() {
                let _ = kst::str_from(s, i);
                let _ = kst::str_up_to(s, i);
                let (l, r) = kst::split_at(s, i);
                assert!(l.len() + r.len() == s.len());
            }
            let mut j = 0;
            while j <= s.len() + 2 {
                let _ = kst::get_range(s, i, j);
                if (b || i >= s.len()) && (kst::is_char_boundary(s, j) || j >= s.len()) {
                    let _ = kst::str_range(s, i, j);
                }
                j += 1;
            }
            i += 1;
        }
        let _ = kst::get_from(s, usize::MAX);
        let _ = kst::str_from(s, usize::MAX);
        let _ = kst::str_range(s, usize::MAX, 0);
        let _ = kst::trim(s);
        let _ = kst::trim_start(s);
        let _ = kst::trim_end(s);
        let mut pi = 0;
        while pi < PATS.len() {
            let p = PATS[pi];
            let _ = kst::starts_with(s, p);
            let _ = kst::ends_with(s, p);
            let _ = kst::find(s, p);
            let _ = kst::rfind(s, p);
            let _ = kst::contains(s, p);
            let _ = kst::strip_prefix(s, p);
            let _ = kst::strip_suffix(s, p);
            let _ = kst::trim_matches(s, p);
            let _ = kst::trim_start_matches(s, p);
            let _ = kst::trim_end_matches(s, p);
            let _ = kst::find_skip(s, p);
            let _ = kst::find_keep(s, p);
            let _ = kst::rfind_skip(s, p);
            let _ = kst::rfind_keep(s, p);
            let _ = kst::split_once(s, p);
            let _ = kst::rsplit_once(s, p);
            // split iterators to exhaustion (bounded)
            let mut it = kst::split(s, p);
            let mut n = 0;
            while let Some((piece, next)) = it.next() { it = next; let _ = piece.len(); let _ = it.remainder(); n += 1; assert!(n <= s.len() + 3); }
            let mut it = kst::rsplit(s, p);
            let mut n = 0;
            while let Some((piece, next)) = it.next() { it = next; let _ = piece.len(); n += 1; assert!(n <= s.len() + 3); }
            let mut it = kst::split(s, p).rev();
            while let Some((_, next)) = it.next_back() { it = next; }
            let mut it = kst::split_terminator(s, p);
            let mut n = 0;
            while let Some((_, next)) = it.next() { it = next; n += 1; assert!(n <= s.len() + 3); }
            let mut it = kst::rsplit_terminator(s, p);
            let mut n = 0;
            while let Some((_, next)) = it.next() { it = next; n += 1; assert!(n <= s.len() + 3); }
            // byte-slice twins with all pattern kinds
            let b = s.as_bytes();
            let _ = ks::bytes_find(b, p);
            let _ = ks::bytes_rfind(b, p.as_bytes());
            let _ = ks::bytes_strip_prefix(b, p);
            let _ = ks::bytes_strip_suffix(b, p.as_bytes());
            let _ = ks::bytes_trim_matches(b, p);
            let _ = ks::bytes_find_skip(b, p.as_bytes());
            let _ = ks::bytes_rfind_keep(b, p);
            pi += 1;
        }
        let mut ci = 0;
        while ci < CHARS.len() {
            let c = CHARS[ci];
            let _ = kst::find(s, c);
            let _ = kst::rfind(s, c);
            let _ = kst::strip_prefix(s, c);
            let _ = kst::strip_suffix(s, c);
            let _ = kst::trim_matches(s, c);
            let _ = kst::find_skip(s, c);
            let _ = kst::rfind_skip(s, c);
            let _ = kst::split_once(s, c);
            let _ = ks::bytes_find(s.as_bytes(), &c);
            let _ = ks::bytes_trim_end_matches(s.as_bytes(), &c);
            let _ = ks::bytes_find(s.as_bytes(), &[0xC3u8, 0xB1]);
            let mut it = kst::split(s, c);
            while let Some((_, next)) = it.next() { it = next; }
            ci += 1;
        }
        // chars / char_indices from both ends, alternating
        let mut it = kst::chars(s);
        let mut flip = false;
        loop {
            let r = if flip { it.copy().next_back() } else { it.copy().next() };
            match r { Some((_, next)) => { it = next; let _ = it.as_str(); } None => break }
            flip = !flip;
        }
        let mut it = kst::char_indices(s).rev();
        while let Some(((o, _), next)) = it.next() { it = next; assert!(o <= s.len()); }
        let _ = ks::bytes_trim(s.as_bytes());
        si += 1;
    }
    assert!(kst::from_utf8(&[0xC3, 0xB1]).is_ok());
    assert!(kst::from_utf8(&[0xC3]).is_err());
}
const _: () = driver_strings();

const fn driver_chr() {
    let ns: [u32; 16] = [0, 0x7F, 0x80, 0x7FF, 0x800, 0xFFF, 0xD7FF, 0xD800, 0xDFFF, 0xE000, 0xFFFF, 0x10000, 0x10FFFF, 0x110000, 0x7FFF_FFFF, u32::MAX];
    let mut i = 0;
    while i < ns.len() {
        if let Some(c) = konst::chr::from_u32(ns[i]) {
            let e = konst::chr::encode_utf8(c);
            assert!(e.as_bytes().len() == c.len_utf8());
            assert!(e.as_str().len() == c.len_utf8());
        }
        i += 1;
    }
}
const _: () = driver_chr();

macro_rules! drain_both {
    ($it:expr) => {{
        let mut it = $it;
        let mut flip = false;
        let mut n = 0;
        loop {
            let r = if flip { it.copy().next_back() } else { it.copy().next() };
            match r { Some((_, next)) => it = next, None => break }
            flip = !flip;
            n += 1;
            assert!(n <= 16);
        }
    }};
}
const fn driver_slice_iters() {
    let arr = [1u8, 2, 3, 4, 5];
    let units = [(); 5];
    let mut len = 0;
    while len <= 5 {
        let s = ks::slice_up_to(&arr, len);
        let u = ks::slice_up_to(&units, len);
        drain_both!(ks::iter(s));
        drain_both!(ks::iter(s).rev());
        drain_both!(ks::iter_copied(s));
        drain_both!(ks::iter(u));
        let mut size = 1;
        while size <= 4 {
            drain_both!(ks::windows(s, size));
            drain_both!(ks::chunks(s, size));
            drain_both!(ks::rchunks(s, size));
            drain_both!(ks::chunks_exact(s, size));
            drain_both!(ks::rchunks_exact(s, size).rev());
            drain_both!(ks::chunks(u, size));
            let _ = ks::chunks_exact(s, size).remainder();
            size += 1;
        }
        drain_both!(ks::array_chunks::<u8, 1>(s));
        drain_both!(ks::array_chunks::<u8, 2>(s));
        drain_both!(ks::array_chunks::<u8, 3>(s).rev());
        drain_both!(ks::array_chunks::<(), 2>(u));
        let _ = ks::array_chunks::<u8, 3>(s).remainder();
        len += 1;
    }
}
const _: () = driver_slice_iters();

const R1: [u8; 3] = konst::iter::collect_const!(u8 => 253..=255);
const R2: [i8; 3] = konst::iter::collect_const!(i8 => -128..-125, rev());
const R3: [char; 4] = konst::iter::collect_const!(char => '\u{D7FE}'..='\u{E001}', rev());
const R4: [u128; 2] = konst::iter::collect_const!(u128 => (u128::MAX - 1)..=u128::MAX);
const R5: [(usize, &u16); 2] = konst::iter::collect_const!((usize, &u16) => &[7u16, 8, 9], enumerate(), skip(1));
const R6: [u16; 4] = konst::iter::collect_const!(u16 => &[&[1u16, 2], &[3u16, 4]], flatten(), copied(), rev());
const R7: [u8; 2] = konst::iter::collect_const!(u8 => 253u8.., take(2));
const R8: [(&u8, u8); 2] = konst::iter::collect_const!((&u8, u8) => &[1u8, 2, 3], zip(7u8..9));

const fn driver_arrays() {
    let a = [1u8, 2, 3];
    let m = konst::array::map!(a, |x| x as u16 + 1);
    assert!(m[2] == 4);
    let e: [u8; 0] = [];
    let _: [u16; 0] = konst::array::map!(e, |x| x as u16);
    let f: [usize; 4] = konst::array::from_fn!(|i| i * 2);
    assert!(f[3] == 6);
    let g = konst::array::map_!(a, |x: u8| x as u32);
    assert!(g[0] == 1);
    let h: [u8; 3] = konst::array::from_fn_!(|i| i as u8);
    assert!(h[2] == 2);
    let z: [(); 3] = konst::array::from_fn_!(|_i| ());
    let _ = z;
    // a one-off `continue` inside the closure re-runs the element: every slot must still be written
    let mut once = true;
    let hc = konst::array::map!(a, |x| { if once { once = false; continue; } x as u16 });
    assert!(hc[0] == 1 && hc[2] == 3);
    let mut once = true;
    let hf: [usize; 3] = konst::array::from_fn!(|i| { if i == 2 && once { once = false; continue; } i });
    assert!(hf[2] == 2);
    // builder / consumer with Copy elements (no drop in const)
    let mut b = konst::array::ArrayBuilder::<u8, 3>::new();
    b.push(1);
    assert!(b.as_slice().len() == 1 && !b.is_full());
    b.push(2);
    b.as_mut_slice()[0] = 7;
    let c = b.copy();
    b.push(3);
    let out = b.build();
    assert!(out[0] == 7 && out[2] == 3);
    core::mem::forget(c);
    let mut c = konst::array::ArrayConsumer::new([1u8, 2, 3, 4]);
    let x = core::mem::ManuallyDrop::into_inner(c.next().unwrap());
    let y = core::mem::ManuallyDrop::into_inner(c.next_back().unwrap());
    assert!(x == 1 && y == 4 && c.as_slice().len() == 2);
    c.as_mut_slice()[0] = 9;
    let _ = c.next();
    let _ = c.next_back();
    assert!(c.next().is_none());
    c.assert_is_empty();
    konst::array::ArrayConsumer::<u8, 0>::empty().assert_is_empty();
}
const _: () = driver_arrays();

#[repr(packed)]
struct Pk { a: u8, b: u32, c: u64 }
struct Gn<T>(T, u8);
const fn destr<T>(v: (T, Gn<T>, [T; 3])) -> (T, T, T, [T; 2]) {
    konst::destructure! {(a, g, arr) = v}
    konst::destructure! {Gn(b, _) = g}
    konst::destructure! {[c, rest @ ..] = arr}
    (a, b, c, rest)
}
const fn driver_destructure() {
    let p = Pk { a: 1, b: 2, c: 3 };
    konst::destructure! {Pk {a, b, c} = p}
    assert!(a == 1 && b == 2 && c == 3);
    let (a, b, c, rest) = destr((1u8, Gn(2u8, 0), [3u8, 4, 5]));
    assert!(a == 1 && b == 2 && c == 3 && rest[1] == 5);
    let (_, _, _, _) = destr(((), Gn((), 0), [(), (), ()]));
    let r = 3u32..9;
    konst::destructure! {core::ops::Range {start, end} = r}
    assert!(start == 3 && end == 9);
}
const _: () = driver_destructure();

const fn driver_cstr() {
    use konst::ffi::cstr;
    let inputs: [&[u8]; 6] = [b"", b"\0", b"a\0", b"a\0b\0", b"ab", b"\xFF\0"];
    let mut i = 0;
    while i < inputs.len() {
        let _ = cstr::from_bytes_with_nul(inputs[i]);
        if let Ok(c) = cstr::from_bytes_until_nul(inputs[i]) {
            let b = cstr::to_bytes(c);
            let bn = cstr::to_bytes_with_nul(c);
            assert!(bn.len() == b.len() + 1);
            let _ = cstr::to_str(c);
        }
        i += 1;
    }
}
const _: () = driver_cstr();

const fn driver_parser() -> u32 {
    use konst::Parser;
    let mut p = Parser::with_start_offset("  12,ñ-3;true,x  ", 4);
    p = p.trim();
    let (n, q) = match p.parse_u32() { Ok(x) => x, Err(_) => panic!("parse") };
    p = q;
    p = match p.strip_prefix(',') { Ok(x) => x, Err(_) => panic!("strip") };
    let (piece, q) = match p.split(';') { Ok(x) => x, Err(_) => panic!("split") };
    assert!(piece.len() == 4);
    p = q;
    let (b, q) = match p.parse_bool() { Ok(x) => x, Err(_) => panic!("bool") };
    assert!(b);
    p = q.skip(1).skip_back(1);
    let _ = p.rfind_skip("zz");
    let _ = p.rsplit_terminator(',');
    konst::parser_method! {p, strip_prefix; "x" => {}, "\u{e9}" | concat!("a", "b") => {}, _ => {} }
    assert!(p.is_empty());
    n
}
const _: u32 = driver_parser();

const fn driver_cmp() {
    const A: &[u8] = &[2];
    const B: &[u8] = &[1, 0];
    assert!(matches!(konst::const_cmp!(A, B), core::cmp::Ordering::Greater));
    assert!(konst::const_eq!("ñ", "ñ"));
    assert!(konst::eq_str("", ""));
    let _ = konst::cmp_str("a", "ab");
    assert!(matches!(konst::max!(3u8, 3u8), 3));
}
const _: () = driver_cmp();

pub fn touch() -> usize {
    R1.len() + R2.len() + R3.len() + R4.len() + R5.len() + R6.len() + R7.len() + R8.len()
}
