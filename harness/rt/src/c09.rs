//! C09 — range iteration = std ranges.
//! E2 graph with hooked canonical state: every (start,end) pair of an 8-bit type is a state of each of the
//! four range iterator types; both transitions of every state are compared with std on the abstraction
//! alpha(state) = Empty | NonEmpty(start,end)  => complete bisimulation for u8 / i8.
//! Wider types: closure from boundary pairs to a depth bound. Plus the iteration macros over all 8-bit pairs.
use crate::common::*;
use konst::iter::into_iter;
use std::collections::{HashSet, VecDeque};
use crate::impl_kiter;
use crate::tree::*;
use konst_kernel::into_iter::range_into_iter as ri;

impl_kiter! {impl[T: konst::iter::Step] ri::RangeIter<T>, T}
impl_kiter! {impl[T: konst::iter::Step] ri::RangeIterRev<T>, T}
impl_kiter! {impl[T: konst::iter::Step] ri::RangeInclusiveIter<T>, T}
impl_kiter! {impl[T: konst::iter::Step] ri::RangeInclusiveIterRev<T>, T}

/// Hook-independent cross-check: full next/next_back history trees on short ranges, values only
/// (catches state kept outside the hooked (start,end) pair, e.g. an extra flag).
macro_rules! trees {
    ($rep:ident, $T:ty, $tyname:expr, $vals:expr, $maxlen:expr) => {{
        let vals: Vec<$T> = $vals;
        let id = |x: &$T| *x;
        for &s in &vals {
            // all ends within maxlen steps above s (and a few below: empty / inverted)
            let mut ends: Vec<$T> = vec![s];
            let mut cur = s;
            for _ in 0..$maxlen {
                if cur == <$T as konst::iter::Step>::MAX_VAL { break; }
                let mut r = cur..;
                let _ = r.next();
                cur = r.start;
                ends.push(cur);
            }
            for &v in &vals { if v < s { ends.push(v); } }
            ends.sort(); ends.dedup();
            for &e in &ends {
                let mut path = Vec::new();
                for kind in ["RangeIter", "RangeIterRev", "RangeInclusiveIter", "RangeInclusiveIterRev"] {
                    let d = || (format!("{}|tree:{}|{:?}|{:?}", $tyname, kind, s, e), format!("{}<{}> over ({:?}, {:?})", kind, $tyname, s, e));
                    let mut c = TreeCtx { rep: $rep, engine: "range-tree", describe: &d, only: None, max_depth: $maxlen + 3, nodes: 0, leaves: 0, depth_is_bound: false };
                    match kind {
                        "RangeIter" => explore(&mut c, into_iter!(s..e), RefIt { it: s..e, reversed: false }, &id, &id, &no_ext, &no_ext, &mut path),
                        "RangeIterRev" => explore(&mut c, into_iter!(s..e).rev(), RefIt { it: s..e, reversed: true }, &id, &id, &no_ext, &no_ext, &mut path),
                        "RangeInclusiveIter" => explore(&mut c, into_iter!(s..=e), RefIt { it: s..=e, reversed: false }, &id, &id, &no_ext, &no_ext, &mut path),
                        _ => explore(&mut c, into_iter!(s..=e).rev(), RefIt { it: s..=e, reversed: true }, &id, &id, &no_ext, &no_ext, &mut path),
                    }
                }
            }
        }
    }};
}

#[derive(Clone, Copy, PartialEq, Eq, Debug, Hash)]
enum Abs<T> {
    Empty,
    Ne(T, T),
}

struct Ctx<'a> {
    rep: &'a mut Report,
}
impl Ctx<'_> {
    fn fail(&mut self, ty: &str, kind: &str, s: String, e: String, op: &str, exp: String, obs: String) {
        self.rep.violation(viol(
            "range-graph",
            &format!("{kind}::{op}"),
            format!("{ty}|{kind}|{s}|{e}|{op}"),
            format!("{kind}<{ty}> in state (start={s}, end={e}): {op}"),
            exp,
            obs,
        ));
    }
}

/// Both transitions of one state of the four iterator types, for one (start,end) pair.
/// Returns the post-state pairs (for closure search on wide types).
macro_rules! step_state {
    ($c:ident, $T:ty, $tyname:expr, $s:expr, $e:expr, $post:ident) => {{
        let (s, e): ($T, $T) = ($s, $e);
        // ---------------- exclusive
        for rev in [false, true] {
            let kind = if rev { "RangeIterRev" } else { "RangeIter" };
            for op in ["next", "next_back"] {
                $c.rep.transitions += 1;
                $c.rep.evaluations += 1;
                // reference: std range built from alpha(state)
                let mut r: std::ops::Range<$T> = s..e;
                let front = (op == "next") != rev;
                let rv = if front { r.next() } else { r.next_back() };
                let ra = if r.is_empty() { Abs::Empty } else { Abs::Ne(r.start, r.end) };
                let kres = catch(|| {
                    if rev {
                        let it = into_iter!(s..e).rev();
                        let x = if op == "next" { it.next() } else { it.next_back() };
                        x.map(|(v, n)| (v, n.__verif_bounds()))
                    } else {
                        let it = into_iter!(s..e);
                        let x = if op == "next" { it.next() } else { it.next_back() };
                        x.map(|(v, n)| (v, n.__verif_bounds()))
                    }
                });
                match kres {
                    Err(p) => $c.fail($tyname, kind, format!("{s:?}"), format!("{e:?}"), op, format!("{rv:?}"), format!("panic: {p}")),
                    Ok(None) => {
                        if rv.is_some() { $c.fail($tyname, kind, format!("{s:?}"), format!("{e:?}"), op, format!("{rv:?}"), "None".into()) }
                    }
                    Ok(Some((v, (ps, pe)))) => {
                        let ka = if ps >= pe { Abs::Empty } else { Abs::Ne(ps, pe) };
                        $c.rep.outcome(&(kind, op, ka == Abs::Empty));
                        // a differing abstract post-state is only a violation if it is observable: the futures (first 48 items
                        // from the front and from the back) of the real post-iterator and of std's post-range must differ
                        let observable = rv != Some(v) || (ka != ra && {
                            let kf = catch(|| { let mut out = Vec::new();
                                if rev { let it = into_iter!(s..e).rev(); let x = if op == "next" { it.next() } else { it.next_back() }; let mut n = x.unwrap().1; let mut m = n.copy();
                                    for _ in 0..48 { match n.next() { Some((v, nn)) => { out.push(v); n = nn; } None => break } } out.push(v); for _ in 0..48 { match m.next_back() { Some((v, nn)) => { out.push(v); m = nn; } None => break } } }
                                else { let it = into_iter!(s..e); let x = if op == "next" { it.next() } else { it.next_back() }; let mut n = x.unwrap().1; let mut m = n.copy();
                                    for _ in 0..48 { match n.next() { Some((v, nn)) => { out.push(v); n = nn; } None => break } } out.push(v); for _ in 0..48 { match m.next_back() { Some((v, nn)) => { out.push(v); m = nn; } None => break } } }
                                out });
                            let mut sf: Vec<$T> = Vec::new();
                            if rev { sf.extend(r.clone().rev().take(48)); sf.push(v); sf.extend(r.clone().take(48)); } else { sf.extend(r.clone().take(48)); sf.push(v); sf.extend(r.clone().rev().take(48)); }
                            kf.ok() != Some(sf)
                        });
                        if observable {
                            $c.fail($tyname, kind, format!("{s:?}"), format!("{e:?}"), op, format!("yield {rv:?}, then {ra:?}"), format!("yield Some({v:?}), then {ka:?} (raw {ps:?},{pe:?})"));
                        } else if ka != ra {
                            $c.rep.notes.push(format!("{kind}<{}>: internal (start,end) encoding after {op} differs from std's but the futures agree (not a violation)", $tyname));
                        }
                        $post.push((false, ps, pe));
                    }
                }
            }
        }
        // ---------------- inclusive
        for rev in [false, true] {
            let kind = if rev { "RangeInclusiveIterRev" } else { "RangeInclusiveIter" };
            for op in ["next", "next_back"] {
                $c.rep.transitions += 1;
                $c.rep.evaluations += 1;
                let mut r: std::ops::RangeInclusive<$T> = s..=e;
                let front = (op == "next") != rev;
                let rv = if front { r.next() } else { r.next_back() };
                let ra = if r.is_empty() { Abs::Empty } else { Abs::Ne(*r.start(), *r.end()) };
                let kres = catch(|| {
                    if rev {
                        let it = into_iter!(s..=e).rev();
                        let x = if op == "next" { it.next() } else { it.next_back() };
                        x.map(|(v, n)| (v, n.__verif_bounds()))
                    } else {
                        let it = into_iter!(s..=e);
                        let x = if op == "next" { it.next() } else { it.next_back() };
                        x.map(|(v, n)| (v, n.__verif_bounds()))
                    }
                });
                match kres {
                    Err(p) => $c.fail($tyname, kind, format!("{s:?}"), format!("{e:?}"), op, format!("{rv:?}"), format!("panic: {p}")),
                    Ok(None) => {
                        if rv.is_some() { $c.fail($tyname, kind, format!("{s:?}"), format!("{e:?}"), op, format!("{rv:?}"), "None".into()) }
                    }
                    Ok(Some((v, (ps, pe)))) => {
                        let ka = if ps > pe { Abs::Empty } else { Abs::Ne(ps, pe) };
                        $c.rep.outcome(&(kind, op, ka == Abs::Empty));
                        // a differing abstract post-state is only a violation if it is observable: the futures (first 48 items
                        // from the front and from the back) of the real post-iterator and of std's post-range must differ
                        let observable = rv != Some(v) || (ka != ra && {
                            let kf = catch(|| { let mut out = Vec::new();
                                if rev { let it = into_iter!(s..=e).rev(); let x = if op == "next" { it.next() } else { it.next_back() }; let mut n = x.unwrap().1; let mut m = n.copy();
                                    for _ in 0..48 { match n.next() { Some((v, nn)) => { out.push(v); n = nn; } None => break } } out.push(v); for _ in 0..48 { match m.next_back() { Some((v, nn)) => { out.push(v); m = nn; } None => break } } }
                                else { let it = into_iter!(s..=e); let x = if op == "next" { it.next() } else { it.next_back() }; let mut n = x.unwrap().1; let mut m = n.copy();
                                    for _ in 0..48 { match n.next() { Some((v, nn)) => { out.push(v); n = nn; } None => break } } out.push(v); for _ in 0..48 { match m.next_back() { Some((v, nn)) => { out.push(v); m = nn; } None => break } } }
                                out });
                            let mut sf: Vec<$T> = Vec::new();
                            if rev { sf.extend(r.clone().rev().take(48)); sf.push(v); sf.extend(r.clone().take(48)); } else { sf.extend(r.clone().take(48)); sf.push(v); sf.extend(r.clone().rev().take(48)); }
                            kf.ok() != Some(sf)
                        });
                        if observable {
                            $c.fail($tyname, kind, format!("{s:?}"), format!("{e:?}"), op, format!("yield {rv:?}, then {ra:?}"), format!("yield Some({v:?}), then {ka:?} (raw {ps:?},{pe:?})"));
                        } else if ka != ra {
                            $c.rep.notes.push(format!("{kind}<{}>: internal (start,end) encoding after {op} differs from std's but the futures agree (not a violation)", $tyname));
                        }
                        $post.push((true, ps, pe));
                    }
                }
            }
        }
    }};
}

macro_rules! range_from {
    ($c:ident, $T:ty, $tyname:expr, $s:expr) => {{
        let s: $T = $s;
        if s != <$T as konst::iter::Step>::MAX_VAL {
            $c.rep.transitions += 1;
            $c.rep.states += 1;
            let mut r = s..;
            let rv = r.next();
            let kres = catch(|| into_iter!(s..).next().map(|(v, n)| (v, n.__verif_start())));
            match kres {
                Ok(Some((v, ns))) if Some(v) == rv && ns == r.start => {}
                other => $c.fail($tyname, "RangeFromIter", format!("{s:?}"), "-".into(), "next", format!("yield {rv:?}, then start {:?}", r.start), format!("{other:?}")),
            }
        }
    }};
}

/// complete graph: every pair is a state (8-bit types)
macro_rules! complete8 {
    ($rep:ident, $T:ty, $tyname:expr) => {{
        let mut c = Ctx { rep: $rep };
        let mut sink: Vec<(bool, $T, $T)> = Vec::new();
        for s in <$T>::MIN..=<$T>::MAX {
            for e in <$T>::MIN..=<$T>::MAX {
                c.rep.states += 4;
                step_state!(c, $T, $tyname, s, e, sink);
                sink.clear();
                if s == <$T>::MAX || e == <$T>::MIN || s == e || (s as i32 - e as i32).abs() == 1 {
                    c.rep.nontrivial(|| format!("{}: state ({s},{e}) of all four iterator types (touches MIN/MAX or is (nearly) empty)", $tyname));
                }
            }
            range_from!(c, $T, $tyname, s);
        }
        c.rep.sample(|| format!("{}: all 65536 (start,end) pairs x 4 iterator types x {{next,next_back}} + all RangeFrom starts", $tyname));
    }};
}

/// closure from boundary pairs up to `depth` (wide types): BFS over hooked states
macro_rules! closure_wide {
    ($rep:ident, $T:ty, $tyname:expr, $vals:expr, $depth:expr) => {{
        let mut c = Ctx { rep: $rep };
        let vals: Vec<$T> = $vals;
        let mut seen: HashSet<($T, $T)> = HashSet::new();
        let mut q: VecDeque<(($T, $T), usize)> = VecDeque::new();
        for &s in &vals { for &e in &vals { if seen.insert((s, e)) { q.push_back(((s, e), 0)); } } }
        let mut post: Vec<(bool, $T, $T)> = Vec::new();
        while let Some(((s, e), d)) = q.pop_front() {
            c.rep.states += 4;
            post.clear();
            step_state!(c, $T, $tyname, s, e, post);
            if d < $depth {
                for &(_, ps, pe) in &post { if seen.insert((ps, pe)) { q.push_back(((ps, pe), d + 1)); } }
            }
        }
        for &s in &vals { range_from!(c, $T, $tyname, s); }
        c.rep.sample(|| format!("{}: closure to depth {} from all pairs over {:?}: {} states", $tyname, $depth, vals, seen.len()));
        c.rep.nontrivial(|| format!("{}: boundary closure ({} states)", $tyname, seen.len()));
    }};
}

macro_rules! int_vals {
    ($T:ty) => {
        vec![<$T>::MIN, <$T>::MIN + 1, <$T>::MIN + 2, (0 as $T).wrapping_sub(2), (0 as $T).wrapping_sub(1), 0, 1, 2, <$T>::MAX - 2, <$T>::MAX - 1, <$T>::MAX]
    };
}

/// The iteration macros over all pairs of an 8-bit type at run time.
macro_rules! macros8 {
    ($rep:ident, $T:ty, $tyname:expr) => {{
        for s in <$T>::MIN..=<$T>::MAX {
            for e in <$T>::MIN..=<$T>::MAX {
                $rep.states += 1;
                let mut bad: Option<(&str, String, String)> = None;
                macro_rules! cmpseq {
                    ($name:expr, $exp:expr, $got:expr) => {{
                        $rep.transitions += 1;
                        let exp: Vec<$T> = $exp;
                        let got: Result<Vec<$T>, String> = catch(|| $got);
                        if got.as_ref().ok() != Some(&exp) && bad.is_none() {
                            bad = Some(($name, format!("{} items: {:?}..", exp.len(), &exp[..exp.len().min(6)]), match &got { Ok(g) => format!("{} items: {:?}..", g.len(), &g[..g.len().min(6)]), Err(p) => format!("panic: {p}") }));
                        }
                    }};
                }
                cmpseq!("for_each!(x in s..e)", (s..e).collect(), { let mut v = Vec::new(); konst::iter::for_each! {x in s..e => v.push(x); } v });
                cmpseq!("for_each!(x in s..=e)", (s..=e).collect(), { let mut v = Vec::new(); konst::iter::for_each! {x in s..=e => v.push(x); } v });
                cmpseq!("for_each!(x in s..e, rev())", (s..e).rev().collect(), { let mut v = Vec::new(); konst::iter::for_each! {x in s..e, rev() => v.push(x); } v });
                cmpseq!("for_each!(x in s..=e, rev())", (s..=e).rev().collect(), { let mut v = Vec::new(); konst::iter::for_each! {x in s..=e, rev() => v.push(x); } v });
                cmpseq!("eval!(s..e, rev(), for_each)", (s..e).rev().collect(), { let mut v = Vec::new(); konst::iter::eval!(s..e, rev(), for_each(|x| v.push(x))); v });
                cmpseq!("eval!(s..=e, for_each)", (s..=e).collect(), { let mut v = Vec::new(); konst::iter::eval!(s..=e, for_each(|x| v.push(x))); v });
                cmpseq!("eval!(&(s..e), for_each)", (s..e).collect(), { let mut v = Vec::new(); let r = s..e; konst::iter::eval!(&r, for_each(|x| v.push(x))); v });
                cmpseq!("eval!(&(s..=e), rev(), for_each)", (s..=e).rev().collect(), { let mut v = Vec::new(); let r = s..=e; konst::iter::eval!(&r, rev(), for_each(|x| v.push(x))); v });
                cmpseq!("for_range!(x in s..e)", (s..e).collect(), { let mut v = Vec::new(); konst::for_range! {x in s..e => v.push(x); } v });
                if s > <$T>::MAX - 3 && e == <$T>::MIN {
                    cmpseq!("for_each!(x in s.., take(MAX - s))", (s..<$T>::MAX).collect(), { let mut v = Vec::new(); let n = (<$T>::MAX as i32 - s as i32) as usize; konst::iter::for_each! {x in s.., take(n) => v.push(x); } v });
                }
                if let Some((name, exp, got)) = bad {
                    $rep.violation(viol("range-macros", name, format!("{}|macros|{s:?}|{e:?}|-", $tyname), format!("{name} with s={s:?}, e={e:?} ({})", $tyname), exp, got));
                }
            }
        }
    }};
}

/// The range under test as an *argument* of an adapter (zip argument, flat_map body): it must be walked in the
/// direction the chain is iterated in.  The outer sources are sized so that zip never truncates (std and konst
/// agree on the pairing then); all pairs of an 8-bit type, plus `s..` forms near MAX.
macro_rules! macros8_args {
    ($rep:ident, $T:ty, $tyname:expr) => {{
        for s in <$T>::MIN..=<$T>::MAX {
            for e in <$T>::MIN..=<$T>::MAX {
                $rep.states += 1;
                let mut bad: Option<(&str, String, String)> = None;
                macro_rules! cmpseq {
                    ($name:expr, $exp:expr, $got:expr) => {{
                        $rep.transitions += 1;
                        let exp: Vec<$T> = $exp;
                        let got: Result<Vec<$T>, String> = catch(|| $got);
                        if got.as_ref().ok() != Some(&exp) && bad.is_none() {
                            bad = Some(($name, format!("{} items: {:?}..", exp.len(), &exp[..exp.len().min(6)]), match &got { Ok(g) => format!("{} items: {:?}..", g.len(), &g[..g.len().min(6)]), Err(p) => format!("panic: {p}") }));
                        }
                    }};
                }
                let n = (s..e).count();
                let ni = (s..=e).count();
                cmpseq!("for_each!((i, x) in 0..n, zip(s..e))", (0..n).zip(s..e).map(|p| p.1).collect(), { let mut v = Vec::new(); konst::iter::for_each! {(_i, x) in 0..n, zip(s..e) => v.push(x); } v });
                cmpseq!("for_each!((i, x) in 0..n, zip(s..e), rev())", (0..n).zip(s..e).rev().map(|p| p.1).collect(), { let mut v = Vec::new(); konst::iter::for_each! {(_i, x) in 0..n, zip(s..e), rev() => v.push(x); } v });
                cmpseq!("for_each!((i, x) in 0..n, zip(s..=e), rev())", (0..ni).zip(s..=e).rev().map(|p| p.1).collect(), { let mut v = Vec::new(); konst::iter::for_each! {(_i, x) in 0..ni, zip(s..=e), rev() => v.push(x); } v });
                cmpseq!("for_each!((i, x) in 0..n, rev(), zip(s..e))", (0..n).rev().zip(s..e).map(|p| p.1).collect(), { let mut v = Vec::new(); konst::iter::for_each! {(_i, x) in 0..n, rev(), zip(s..e) => v.push(x); } v });
                cmpseq!("for_each!(x in 0..1, flat_map(|_| s..e))", (0..1usize).flat_map(|_| s..e).collect(), { let mut v = Vec::new(); konst::iter::for_each! {x in 0..1usize, flat_map(|_| s..e) => v.push(x); } v });
                cmpseq!("for_each!(x in 0..1, flat_map(|_| s..=e), rev())", (0..1usize).flat_map(|_| s..=e).rev().collect(), { let mut v = Vec::new(); konst::iter::for_each! {x in 0..1usize, flat_map(|_| s..=e), rev() => v.push(x); } v });
                cmpseq!("for_each!(x in 0..1, rev(), take(1), flat_map(|_| s..e))", (0..1usize).rev().take(1).flat_map(|_| s..e).collect(), { let mut v = Vec::new(); konst::iter::for_each! {x in 0..1usize, rev(), take(1), flat_map(|_| s..e) => v.push(x); } v });
                cmpseq!("for_each!(x in 0..1, rev(), enumerate(), flat_map(|_| s..=e))", (0..1usize).rev().enumerate().flat_map(|_| s..=e).collect(), { let mut v = Vec::new(); konst::iter::for_each! {x in 0..1usize, rev(), enumerate(), flat_map(|_| s..=e) => v.push(x); } v });
                cmpseq!("eval!(0..n, rev(), skip(0), zip(s..e), for_each)", (0..n).rev().skip(0).zip(s..e).map(|p| p.1).collect(), { let mut v = Vec::new(); konst::iter::eval!(0..n, rev(), skip(0), zip(s..e), for_each(|p| v.push(p.1))); v });
                // the range one layer further down: below a flat_map layer, again as flat_map body and as zip argument
                cmpseq!("for_each!(x in 0..1, flat_map(|_| 0..1), flat_map(|_| s..e), rev())", (0..1usize).flat_map(|_| 0..1usize).flat_map(|_| s..e).rev().collect(), { let mut v = Vec::new(); konst::iter::for_each! {x in 0..1usize, flat_map(|_| 0..1usize), flat_map(|_| s..e), rev() => v.push(x); } v });
                cmpseq!("for_each!(x in 0..1, flat_map(|_| 0..1), flat_map(|_| s..=e))", (0..1usize).flat_map(|_| 0..1usize).flat_map(|_| s..=e).collect(), { let mut v = Vec::new(); konst::iter::for_each! {x in 0..1usize, flat_map(|_| 0..1usize), flat_map(|_| s..=e) => v.push(x); } v });
                cmpseq!("for_each!((i, x) in 0..1, flat_map(|_| 0..n), zip(s..e), rev())", (0..n).zip(s..e).rev().map(|p| p.1).collect(), { let mut v = Vec::new(); konst::iter::for_each! {(_i, x) in 0..1usize, flat_map(|_| 0..n), zip(s..e), rev() => v.push(x); } v });
                cmpseq!("for_each!((i, x) in 0..1, flat_map(|_| 0..n), rev(), zip(s..e))", (0..n).rev().zip(s..e).map(|p| p.1).collect(), { let mut v = Vec::new(); konst::iter::for_each! {(_i, x) in 0..1usize, flat_map(|_| 0..n), rev(), zip(s..e) => v.push(x); } v });
                if s > <$T>::MAX - 4 && e == <$T>::MIN {
                    let k = (<$T>::MAX as i32 - s as i32) as usize;
                    cmpseq!("for_each!((i, x) in 0..k, zip(s..))", (0..k).zip(s..).map(|p| p.1).collect(), { let mut v = Vec::new(); konst::iter::for_each! {(_i, x) in 0..k, zip(s..) => v.push(x); } v });
                    cmpseq!("for_each!((i, x) in 0..k, rev(), zip(s..))", (0..k).rev().zip(s..).map(|p| p.1).collect(), { let mut v = Vec::new(); konst::iter::for_each! {(_i, x) in 0..k, rev(), zip(s..) => v.push(x); } v });
                }
                if let Some((name, exp, got)) = bad {
                    $rep.violation(viol("range-macros", name, format!("{}|macros_args|{s:?}|{e:?}|-", $tyname), format!("{name} with s={s:?}, e={e:?} ({})", $tyname), exp, got));
                }
            }
        }
    }};
}

fn chars_vals() -> Vec<char> {
    [0u32, 1, 2, 0xD7FD, 0xD7FE, 0xD7FF, 0xE000, 0xE001, 0xE002, 0x10FFFD, 0x10FFFE, 0x10FFFF].iter().map(|&n| char::from_u32(n).unwrap()).collect()
}

// compile-time walk: collect_const! over boundary ranges must equal std (evaluated by rustc's interpreter)
const CC_U8_A: [u8; 3] = konst::iter::collect_const!(u8 => 253..=255);
const CC_U8_B: [u8; 3] = konst::iter::collect_const!(u8 => 253..=255, rev());
const CC_I8_A: [i8; 3] = konst::iter::collect_const!(i8 => -128..-125);
const CC_I8_B: [i8; 4] = konst::iter::collect_const!(i8 => -128..=-125, rev());
const CC_U8_E: [u8; 0] = konst::iter::collect_const!(u8 => 5..5);
const CC_U8_I: [u8; 0] = konst::iter::collect_const!(u8 => 200..=100);
const CC_CH_A: [char; 4] = konst::iter::collect_const!(char => '\u{D7FE}'..='\u{E001}');
const CC_CH_B: [char; 4] = konst::iter::collect_const!(char => '\u{D7FE}'..='\u{E001}', rev());
const CC_CH_C: [char; 2] = konst::iter::collect_const!(char => '\u{10FFFE}'..='\u{10FFFF}');
const CC_U128: [u128; 2] = konst::iter::collect_const!(u128 => (u128::MAX - 1)..=u128::MAX);
const CC_I128: [i128; 2] = konst::iter::collect_const!(i128 => i128::MIN..=(i128::MIN + 1), rev());
const CC_FROM: [u8; 3] = konst::iter::collect_const!(u8 => 250.., take(3));

fn const_walk(rep: &mut Report) {
    let mut ck = |name: &str, ok: bool| {
        rep.transitions += 1;
        rep.states += 1;
        if !ok {
            rep.violation(viol("range-macros", name, format!("const|{name}|||"), format!("collect_const! {name}"), "std's sequence".into(), "different".into()));
        }
    };
    ck("u8 253..=255", CC_U8_A[..] == (253u8..=255).collect::<Vec<_>>()[..]);
    ck("u8 253..=255 rev", CC_U8_B[..] == (253u8..=255).rev().collect::<Vec<_>>()[..]);
    ck("i8 -128..-125", CC_I8_A[..] == (-128i8..-125).collect::<Vec<_>>()[..]);
    ck("i8 -128..=-125 rev", CC_I8_B[..] == (-128i8..=-125).rev().collect::<Vec<_>>()[..]);
    ck("u8 5..5", CC_U8_E.is_empty());
    ck("u8 200..=100", CC_U8_I.is_empty());
    ck("char D7FE..=E001", CC_CH_A[..] == ('\u{D7FE}'..='\u{E001}').collect::<Vec<_>>()[..]);
    ck("char D7FE..=E001 rev", CC_CH_B[..] == ('\u{D7FE}'..='\u{E001}').rev().collect::<Vec<_>>()[..]);
    ck("char 10FFFE..=10FFFF", CC_CH_C[..] == ('\u{10FFFE}'..='\u{10FFFF}').collect::<Vec<_>>()[..]);
    ck("u128 MAX-1..=MAX", CC_U128[..] == ((u128::MAX - 1)..=u128::MAX).collect::<Vec<_>>()[..]);
    ck("i128 MIN..=MIN+1 rev", CC_I128[..] == (i128::MIN..=(i128::MIN + 1)).rev().collect::<Vec<_>>()[..]);
    ck("u8 250.. take 3", CC_FROM[..] == (250u8..).take(3).collect::<Vec<_>>()[..]);
}

type Job = fn(&mut Report, usize);
fn j_trees(r: &mut Report, d: usize) {
    let ml = d.min(9);
    trees!(r, u8, "u8", int_vals!(u8), ml);
    trees!(r, i8, "i8", int_vals!(i8), ml);
    trees!(r, u16, "u16", int_vals!(u16), ml);
    trees!(r, i32, "i32", int_vals!(i32), ml);
    trees!(r, u64, "u64", int_vals!(u64), ml);
    trees!(r, i128, "i128", int_vals!(i128), ml);
    trees!(r, usize, "usize", int_vals!(usize), ml);
    trees!(r, char, "char", chars_vals(), ml);
}
fn j_u8(r: &mut Report, _d: usize) { complete8!(r, u8, "u8"); }
fn j_i8(r: &mut Report, _d: usize) { complete8!(r, i8, "i8"); }
fn j_m_u8(r: &mut Report, _d: usize) { macros8!(r, u8, "u8"); }
fn j_m_i8(r: &mut Report, _d: usize) { macros8!(r, i8, "i8"); }
fn j_ma_u8(r: &mut Report, _d: usize) { macros8_args!(r, u8, "u8"); }
fn j_ma_i8(r: &mut Report, _d: usize) { macros8_args!(r, i8, "i8"); }
fn j_u16(r: &mut Report, d: usize) { closure_wide!(r, u16, "u16", int_vals!(u16), d); }
fn j_i16(r: &mut Report, d: usize) { closure_wide!(r, i16, "i16", int_vals!(i16), d); }
fn j_u32(r: &mut Report, d: usize) { closure_wide!(r, u32, "u32", int_vals!(u32), d); }
fn j_i32(r: &mut Report, d: usize) { closure_wide!(r, i32, "i32", int_vals!(i32), d); }
fn j_u64(r: &mut Report, d: usize) { closure_wide!(r, u64, "u64", int_vals!(u64), d); }
fn j_i64(r: &mut Report, d: usize) { closure_wide!(r, i64, "i64", int_vals!(i64), d); }
fn j_u128(r: &mut Report, d: usize) { closure_wide!(r, u128, "u128", int_vals!(u128), d); }
fn j_i128(r: &mut Report, d: usize) { closure_wide!(r, i128, "i128", int_vals!(i128), d); }
fn j_usize(r: &mut Report, d: usize) { closure_wide!(r, usize, "usize", int_vals!(usize), d); }
fn j_isize(r: &mut Report, d: usize) { closure_wide!(r, isize, "isize", int_vals!(isize), d); }
fn j_char(r: &mut Report, d: usize) { closure_wide!(r, char, "char", chars_vals(), d); }
fn j_u8_small(r: &mut Report, d: usize) { closure_wide!(r, u8, "u8", int_vals!(u8), d); }
fn j_i8_small(r: &mut Report, d: usize) { closure_wide!(r, i8, "i8", int_vals!(i8), d); }

pub fn run(tier: Tier, rep: &mut Report) -> (String, String) {
    let depth = tier.pick(8, 24, 1);
    let mut jobs: Vec<(&str, Job)> = vec![
        ("u16", j_u16), ("i16", j_i16), ("u32", j_u32), ("i32", j_i32), ("u64", j_u64), ("i64", j_i64),
        ("u128", j_u128), ("i128", j_i128), ("usize", j_usize), ("isize", j_isize), ("char", j_char), ("trees", j_trees),
    ];
    if tier == Tier::Miri {
        jobs.retain(|(n, _)| ["i128", "char", "usize"].contains(n));
        jobs.push(("u8", j_u8_small));
    } else {
        jobs.splice(0..0, [("u8", j_u8 as Job), ("i8", j_i8 as Job), ("u8 macros", j_m_u8 as Job), ("i8 macros", j_m_i8 as Job), ("u8 as adapter argument", j_ma_u8 as Job), ("i8 as adapter argument", j_ma_i8 as Job)]);
    }
    rep.merge(par_each(&jobs, n_threads(tier), |(_, f), r| f(r, depth)));
    const_walk(rep);
    rep.traces = rep.transitions;
    (
        "state = (iterator type in {RangeIter, RangeIterRev, RangeInclusiveIter, RangeInclusiveIterRev}, start, end) read through the __verif_bounds hook; transitions = next and next_back of every state; oracle = the std range built from alpha(state) stepped the same way: yielded value and alpha(post-state) must agree (bisimulation; complete for u8/i8 because every pair is a state and the set is closed under both transitions); RangeFromIter: every start < MAX; macros for_each!/eval!/for_range!/collect_const! must yield std's sequence; non-trivial = states touching MIN/MAX or (nearly) empty".into(),
        format!("u8, i8: all 65536 (start,end) pairs x 4 iterator types (complete graph) + iteration macros over all pairs, with the range as the source (9 forms) and as a zip argument / flat_map body in forward and reversed chains, also one flat_map layer further down (13 forms, plus `s..` near MAX); u16..u128, i16..i128, usize, isize: closure to depth {depth} from all pairs over {{MIN,MIN+1,MIN+2,-2,-1,0,1,2,MAX-2,MAX-1,MAX}}; char: closure to depth {depth} from pairs over {{0,1,2,D7FD..D7FF,E000..E002,10FFFD..10FFFF}}; collect_const! on 12 boundary ranges at compile time; hook-independent history trees (values only) on all ranges of length <= min(depth,9) starting at each boundary value for u8,i8,u16,i32,u64,i128,usize,char"),
    )
}

pub fn replay(case: &str, rep: &mut Report) {
    // ty|kind|s|e|op  -> re-run the whole (small) family of that type: cheap and exact
    let p: Vec<&str> = case.split('|').collect();
    let jobs: Vec<(&str, Job)> = vec![
        ("u8", j_u8), ("i8", j_i8), ("u16", j_u16), ("i16", j_i16), ("u32", j_u32), ("i32", j_i32), ("u64", j_u64), ("i64", j_i64),
        ("u128", j_u128), ("i128", j_i128), ("usize", j_usize), ("isize", j_isize), ("char", j_char),
    ];
    if p[0] == "const" {
        return const_walk(rep);
    }
    if p.get(1).map_or(false, |k| k.starts_with("tree:")) {
        j_trees(rep, 9);
        let pre = p[..4].join("|");
        rep.violations.retain(|v| v.replay.starts_with(&pre));
        rep.violations_total = rep.violations.len() as u64;
        return;
    }
    if p.get(1) == Some(&"macros_args") {
        if p[0] == "u8" { j_ma_u8(rep, 0) } else { j_ma_i8(rep, 0) }
        rep.violations.retain(|v| v.replay == case);
        rep.violations_total = rep.violations.len() as u64;
        return;
    }
    if p.get(1) == Some(&"macros") {
        if p[0] == "u8" { j_m_u8(rep, 0) } else { j_m_i8(rep, 0) }
        rep.violations.retain(|v| v.replay == case);
        return;
    }
    for (n, f) in jobs {
        if n == p[0] {
            f(rep, 24);
        }
    }
    rep.violations.retain(|v| v.replay == case);
    rep.violations_total = rep.violations.len() as u64;
}
