//! C15 — zero-sized elements.  A zero-sized element has no identity (every element lives at the same address), so the
//! ledger is a pair of counters: values created (new + clone) and values dropped.  The histories are the same kind as
//! for `Tracked` (ArrayBuilder: push / build / drop / clone; ArrayConsumer: next / next_back / drop / clone; by-value
//! map with a closure panicking at element k); after every step the counters must equal the model's, and at the end of
//! a complete history created == dropped.
use crate::common::*;
use konst::array::{ArrayBuilder, ArrayConsumer};
use std::cell::Cell;

thread_local! {
    static NEW: Cell<u64> = const { Cell::new(0) };
    static DROPPED: Cell<u64> = const { Cell::new(0) };
}
#[derive(Debug)]
pub struct Z;
impl Z {
    fn new() -> Z {
        NEW.with(|c| c.set(c.get() + 1));
        Z
    }
}
impl Clone for Z {
    fn clone(&self) -> Z {
        Z::new()
    }
}
impl Drop for Z {
    fn drop(&mut self) {
        DROPPED.with(|c| c.set(c.get() + 1));
    }
}
fn counters() -> (u64, u64) {
    (NEW.with(|c| c.get()), DROPPED.with(|c| c.get()))
}
fn reset() {
    NEW.with(|c| c.set(0));
    DROPPED.with(|c| c.set(0));
}

#[derive(Clone, Copy, Debug, PartialEq)]
enum Op {
    /// builder: push / consumer: next
    Front(u8),
    /// builder: build (only when full) / consumer: next_back
    Back(u8),
    Drop(u8),
    Clone,
}

fn fail(rep: &mut Report, kind: &str, n: usize, path: &[Op], what: &str, exp: String, obs: String) {
    let p = path.iter().map(|o| format!("{o:?}")).collect::<Vec<_>>().join(",");
    rep.violation(viol("C15", what, format!("zst{kind}|{n}|{p}"), format!("{kind}<zero-sized Drop type, {n}> after [{p}]: {what}"), exp, obs));
}

/// one builder history from scratch; false = not enabled in the model
fn run_builder<const N: usize>(rep: &mut Report, path: &[Op]) -> bool {
    reset();
    let mut objs: [Option<ArrayBuilder<Z, N>>; 2] = [Some(ArrayBuilder::new()), None];
    let mut model: [Option<usize>; 2] = [Some(0), None];
    let mut built: Vec<[Z; N]> = Vec::new();
    let (mut exp_new, mut exp_drop) = (0u64, 0u64);
    let mut bad: Option<(String, String, String)> = None;
    for (si, op) in path.iter().enumerate() {
        let r = catch(|| match *op {
            Op::Front(o) => {
                let (Some(b), Some(m)) = (objs[o as usize].as_mut(), model[o as usize].as_mut()) else { return false };
                if *m == N {
                    return false;
                }
                b.push(Z::new());
                *m += 1;
                exp_new += 1;
                true
            }
            Op::Back(o) => {
                if model[o as usize] != Some(N) {
                    return false;
                }
                let b = objs[o as usize].take().unwrap();
                model[o as usize] = None;
                built.push(b.build());
                true
            }
            Op::Drop(o) => {
                let Some(m) = model[o as usize].take() else { return false };
                drop(objs[o as usize].take());
                exp_drop += m as u64;
                true
            }
            Op::Clone => {
                if model[1].is_some() || model[0].is_none() {
                    return false;
                }
                let c = objs[0].as_ref().unwrap().clone();
                objs[1] = Some(c);
                model[1] = model[0];
                exp_new += model[0].unwrap() as u64;
                true
            }
        });
        match r {
            Ok(false) => return false,
            Ok(true) => {}
            Err(p) => {
                bad = Some((format!("step {si} {op:?}"), "no panic".into(), format!("panic: {p}")));
                break;
            }
        }
        for o in 0..2 {
            if let (Some(b), Some(m)) = (&objs[o], model[o]) {
                if b.len() != m || b.as_slice().len() != m || b.is_full() != (m == N) {
                    bad = Some((format!("step {si} {op:?}: len/is_full of object {o}"), format!("len {m}"), format!("len {} slice len {} is_full {}", b.len(), b.as_slice().len(), b.is_full())));
                }
            }
        }
        let c = counters();
        if bad.is_none() && c != (exp_new, exp_drop) {
            bad = Some((format!("step {si} {op:?}: created/dropped counters"), format!("created {exp_new} dropped {exp_drop}"), format!("created {} dropped {}", c.0, c.1)));
        }
        if bad.is_some() {
            break;
        }
    }
    rep.transitions += path.len() as u64;
    rep.traces += 1;
    if let Some((what, e, o)) = bad {
        // do not touch the possibly corrupted objects again
        for x in objs {
            std::mem::forget(x);
        }
        std::mem::forget(built);
        fail(rep, "ArrayBuilder", N, path, &what, e, o);
        return true;
    }
    // complete the history: everything still alive is dropped now
    drop(objs);
    drop(built);
    let c = counters();
    if c.0 != c.1 {
        fail(rep, "ArrayBuilder", N, path, "end of history: every created value dropped exactly once", format!("created {} = dropped", c.0), format!("created {} dropped {}", c.0, c.1));
    }
    true
}

fn run_consumer<const N: usize>(rep: &mut Report, path: &[Op]) -> bool {
    reset();
    let arr: [Z; N] = std::array::from_fn(|_| Z::new());
    let mut objs: [Option<ArrayConsumer<Z, N>>; 2] = [Some(ArrayConsumer::new(arr)), None];
    let mut model: [Option<usize>; 2] = [Some(N), None];
    let (mut exp_new, mut exp_drop) = (N as u64, 0u64);
    let mut bad: Option<(String, String, String)> = None;
    for (si, op) in path.iter().enumerate() {
        let r = catch(|| match *op {
            Op::Front(o) | Op::Back(o) => {
                let (Some(c), Some(m)) = (objs[o as usize].as_mut(), model[o as usize].as_mut()) else { return Ok(false) };
                let got = if matches!(op, Op::Front(_)) { c.next() } else { c.next_back() };
                let exp_some = *m > 0;
                if got.is_some() != exp_some {
                    return Err((format!("{op:?}"), format!("is_some = {exp_some}"), format!("is_some = {}", got.is_some())));
                }
                if exp_some {
                    *m -= 1;
                    exp_drop += 1; // the handed-out value is dropped here by the caller
                }
                drop(got.map(std::mem::ManuallyDrop::into_inner));
                Ok(true)
            }
            Op::Drop(o) => {
                let Some(m) = model[o as usize].take() else { return Ok(false) };
                drop(objs[o as usize].take());
                exp_drop += m as u64;
                Ok(true)
            }
            Op::Clone => {
                if model[1].is_some() || model[0].is_none() {
                    return Ok(false);
                }
                let c = objs[0].as_ref().unwrap().clone();
                objs[1] = Some(c);
                model[1] = model[0];
                exp_new += model[0].unwrap() as u64;
                Ok(true)
            }
        });
        match r {
            Ok(Ok(false)) => return false,
            Ok(Ok(true)) => {}
            Ok(Err(b)) => bad = Some(b),
            Err(p) => bad = Some((format!("step {si} {op:?}"), "no panic".into(), format!("panic: {p}"))),
        }
        for o in 0..2 {
            if let (Some(c), Some(m)) = (&objs[o], model[o]) {
                if bad.is_none() && c.as_slice().len() != m {
                    bad = Some((format!("step {si} {op:?}: as_slice().len() of object {o}"), format!("{m}"), format!("{}", c.as_slice().len())));
                }
            }
        }
        let c = counters();
        if bad.is_none() && c != (exp_new, exp_drop) {
            bad = Some((format!("step {si} {op:?}: created/dropped counters"), format!("created {exp_new} dropped {exp_drop}"), format!("created {} dropped {}", c.0, c.1)));
        }
        if bad.is_some() {
            break;
        }
    }
    rep.transitions += path.len() as u64;
    rep.traces += 1;
    if let Some((what, e, o)) = bad {
        for x in objs {
            std::mem::forget(x);
        }
        fail(rep, "ArrayConsumer", N, path, &what, e, o);
        return true;
    }
    drop(objs);
    let c = counters();
    if c.0 != c.1 {
        fail(rep, "ArrayConsumer", N, path, "end of history: every created value dropped exactly once", format!("created {} = dropped", c.0), format!("created {} dropped {}", c.0, c.1));
    }
    true
}

fn ops() -> Vec<Op> {
    vec![Op::Front(0), Op::Back(0), Op::Drop(0), Op::Clone, Op::Front(1), Op::Back(1), Op::Drop(1)]
}

fn dfs<const N: usize>(rep: &mut Report, builder: bool, path: &mut Vec<Op>, depth: usize) {
    let enabled = if builder { run_builder::<N>(rep, path) } else { run_consumer::<N>(rep, path) };
    if !enabled {
        return;
    }
    rep.states += 1;
    if path.len() >= depth {
        return;
    }
    for op in ops() {
        path.push(op);
        dfs::<N>(rep, builder, path, depth);
        path.pop();
    }
}

/// by-value map over zero-sized elements with a closure that panics at element k (k = N: no panic)
fn map_zst<const N: usize>(rep: &mut Report) {
    for k in 0..=N {
        reset();
        rep.states += 1;
        rep.transitions += 1;
        rep.traces += 1;
        let arr: [Z; N] = std::array::from_fn(|_| Z::new());
        let mut idx = 0usize;
        let r = catch(|| {
            konst::array::map_!(arr, |z: Z| {
                if idx == k {
                    panic!("closure panics at element {k}")
                }
                idx += 1;
                drop(z);
                Z::new()
            })
        });
        let complete = r.is_ok();
        if complete != (k == N) {
            rep.violation(viol("C15", "map_", format!("zstmap|{N}|{k}"), format!("array::map_!([zero-sized; {N}], closure panicking at element {k})"), format!("returns = {}", k == N), format!("returns = {complete}")));
        }
        drop(r);
        let c = counters();
        // complete: N inputs + N outputs all dropped; panic path: nothing dropped twice (dropped <= created)
        if (complete && c.0 != c.1) || c.1 > c.0 {
            rep.violation(viol("C15", "map_", format!("zstmap|{N}|{k}"), format!("array::map_!([zero-sized; {N}], closure panicking at element {k}): created/dropped counters"), format!("dropped {} created", if complete { "==" } else { "<=" }), format!("created {} dropped {}", c.0, c.1)));
        }
    }
}

macro_rules! for_n {
    ($f:ident, $rep:expr, $n:expr $(, $a:expr)*) => {
        match $n { 0 => $f::<0>($rep $(, $a)*), 1 => $f::<1>($rep $(, $a)*), 2 => $f::<2>($rep $(, $a)*), 3 => $f::<3>($rep $(, $a)*), _ => $f::<4>($rep $(, $a)*) }
    };
}

pub fn run(tier: Tier, rep: &mut Report) -> String {
    let maxn = tier.pick(3, 4, 2);
    let extra = tier.pick(3, 4, 2);
    for n in 0..=maxn {
        for builder in [true, false] {
            let mut p = Vec::new();
            for_n!(dfs, rep, n, builder, &mut p, (n + extra).min(tier.pick(6, 7, 4)));
        }
        for_n!(map_zst, rep, n);
    }
    rep.sample(|| "ArrayBuilder<zero-sized Drop type,2>: [Front(0),Front(0),Clone,Drop(0),Back(1)]".into());
    format!("zero-sized Drop elements: N in 0..={maxn}, history depth min(N+{extra}, {}), created/dropped counters after every step", tier.pick(6, 7, 4))
}

pub fn replay(case: &str, rep: &mut Report) {
    let p: Vec<&str> = case.split('|').collect();
    let n: usize = p[1].parse().unwrap();
    if p[0] == "zstmap" {
        for_n!(map_zst, rep, n);
    } else {
        let depth = p.get(2).map_or(0, |s| s.split(',').filter(|x| !x.is_empty()).count());
        let mut path = Vec::new();
        for_n!(dfs, rep, n, p[0] == "zstArrayBuilder", &mut path, depth);
    }
    rep.violations.retain(|v| v.replay == case);
    rep.violations_total = rep.violations.len() as u64;
}
