//! C01 — run-time UB monitor. Under Miri (`cargo +nightly miri run -p rt -- C01 --tier miri`) this driver
//! re-runs the bounded explorers of the other properties at reduced bounds plus a driver for the remaining
//! safe unsafe-backed API (maybe_uninit, manually_drop, ptr, nonnull, array macros, destructure!, DSL macros,
//! collect_const! at run time). Miri itself is the oracle for out-of-bounds pointer arithmetic, uninitialised
//! reads, invalid values, misalignment and aliasing violations; a marker line on stderr names the engine that
//! was running. Natively (`--tier quick|thorough`) it runs the engines that carry the sub-range / UTF-8 oracle
//! and keeps only the oracle's verdicts.
use crate::common::*;
use std::mem::{ManuallyDrop, MaybeUninit};

/// the driver's own asserts compare against hand-computed values; a failing assert (or any panic) means a safe API
/// returned garbage or panicked unexpectedly: reported as a violation, not as a harness crash
fn misc_safe_api(rep: &mut Report) {
    if let Err(p) = catch(|| misc_safe_api_inner(rep)) {
        // a wrong *value* is a functional matter of C11/C15/C19/...; C01 only owns undefined behaviour, which the
        // interpreters flag by themselves. Natively an assertion failure here is recorded, not judged.
        rep.notes.push(format!("misc safe-API driver stopped at an assertion/panic (functional, not a C01 verdict): {p}"));
    }
}

fn misc_safe_api_inner(rep: &mut Report) {
    use konst::{manually_drop, maybe_uninit, ptr};
    // maybe_uninit
    let arr: [MaybeUninit<String>; 3] = maybe_uninit::uninit_array::<String, 3>();
    let mut arr = arr;
    for (i, slot) in arr.iter_mut().enumerate() {
        let r = maybe_uninit::write(slot, format!("s{i}"));
        r.push('!');
        let _ = maybe_uninit::as_mut_ptr(slot);
    }
    let init: [String; 3] = unsafe { maybe_uninit::array_assume_init(arr) };
    assert_eq!(init, ["s0!", "s1!", "s2!"]);
    let z: [MaybeUninit<u64>; 0] = maybe_uninit::uninit_array::<u64, 0>();
    let _: [u64; 0] = unsafe { maybe_uninit::array_assume_init(z) };
    // manually_drop
    let mut md = ManuallyDrop::new(String::from("md"));
    assert_eq!(manually_drop::as_inner(&md), "md");
    manually_drop::as_inner_mut(&mut md).push('x');
    let s = unsafe { manually_drop::take(&mut md) };
    assert_eq!(s, "mdx");
    // ptr / nonnull on null and valid pointers
    let v = 5u32;
    assert!(!ptr::is_null(&v as *const u32));
    assert!(ptr::is_null(std::ptr::null::<u32>()));
    assert!(ptr::is_null(std::ptr::null::<[u8; 0]>()));
    assert_eq!(unsafe { ptr::as_ref(&v as *const u32) }, Some(&5));
    assert_eq!(unsafe { ptr::as_ref(std::ptr::null::<u32>()) }, None);
    let mut w = 6u32;
    assert_eq!(unsafe { ptr::as_mut(&mut w as *mut u32) }, Some(&mut 6));
    assert_eq!(unsafe { ptr::as_mut(std::ptr::null_mut::<u32>()) }, None);
    assert!(ptr::nonnull::new(std::ptr::null_mut::<u32>()).is_none());
    let nn = ptr::nonnull::new(&mut w as *mut u32).unwrap();
    assert_eq!(unsafe { *ptr::nonnull::as_ref(nn) }, 6);
    unsafe { *ptr::nonnull::as_mut(nn) = 7 };
    assert_eq!(w, 7);
    let nr = ptr::nonnull::from_ref(&v);
    assert_eq!(unsafe { *nr.as_ref() }, 5);
    let nm = ptr::nonnull::from_mut(&mut w);
    assert_eq!(unsafe { *nm.as_ref() }, 7);
    let sl: &[u8] = &[1, 2, 3];
    let ns = ptr::nonnull::from_ref(sl);
    assert_eq!(unsafe { ns.as_ref() }, &[1, 2, 3]);
    rep.transitions += 30;
    rep.states += 1;

    // array macros incl. non-Copy / by-value / ZST / length 0
    let a0: [u8; 0] = [];
    let _: [u16; 0] = konst::array::map!(a0, |x| x as u16);
    let a3 = [1u8, 2, 3];
    assert_eq!(konst::array::map!(a3, |x| x as u16 * 2), [2, 4, 6]);
    let s3 = [String::from("a"), String::from("b"), String::from("c")];
    assert_eq!(konst::array::map!(s3, |ref s| s.len()), [1, 1, 1]);
    assert_eq!(konst::array::map_!(s3, |s| s + "!"), ["a!", "b!", "c!"]);
    let u3 = [(), (), ()];
    assert_eq!(konst::array::map_!(u3, |_x| 7u8), [7, 7, 7]);
    assert_eq!(konst::array::from_fn!([String; 2] => |i| i.to_string()), ["0", "1"]);
    assert_eq!(konst::array::from_fn_!([String; 2] => |i| i.to_string()), ["0", "1"]);
    let _: [(); 4] = konst::array::from_fn_!(|_i| ());
    // panicking closure in the by-value map: elements must be dropped (no double free / leak is fine)
    let s2 = [String::from("p"), String::from("q")];
    let mut n = 0;
    let r = catch(|| konst::array::map_!(s2, |s| { n += 1; if n == 2 { panic!("x") } s }));
    assert!(r.is_err());
    // hostile control flow inside the closure: a one-off `continue` re-runs the element, a `break` must be refused;
    // in neither case may an unwritten slot reach array_assume_init (the interpreter flags the uninitialised read)
    let mut once = true;
    let h1 = konst::array::map!(a3, |x| { if once { once = false; continue; } x as u16 + 1 });
    assert_eq!(h1, [2, 3, 4]);
    let mut once = true;
    let h2: [usize; 3] = konst::array::from_fn!(|i| { if i == 1 && once { once = false; continue; } i * 2 });
    assert_eq!(h2, [0, 2, 4]);
    for k in 0..3usize {
        let mut n = 0usize;
        let r = catch(|| konst::array::map!(a3, |x| { let i = n; n += 1; if i == k { break; } x }));
        assert!(r.is_err(), "break inside array::map! must not yield an array");
        let mut n = 0usize;
        let r = catch(|| konst::array::from_fn_!(|_i| { let i = n; n += 1; if i == k { break; } String::from("s") }));
        assert!(r.map(|a: [String; 3]| a.len()).is_err(), "break inside array::from_fn_! must not yield an array");
    }
    rep.transitions += 20;

    // destructure! incl. packed / generic / arrays with rest
    #[repr(packed)]
    struct P { a: u8, b: String, c: u64 }
    struct G<T>(T, String);
    let p = P { a: 1, b: String::from("b"), c: 9 };
    konst::destructure! {P {a, b, c} = p}
    assert_eq!((a, b.as_str(), c), (1, "b", 9));
    let g = G(vec![1u8], String::from("g"));
    konst::destructure! {G(x, y) = g}
    assert_eq!((x, y.as_str()), (vec![1u8], "g"));
    let arr = [String::from("0"), String::from("1"), String::from("2"), String::from("3")];
    konst::destructure! {[first, mid @ .., last] = arr}
    assert_eq!((first.as_str(), mid.len(), last.as_str()), ("0", 2, "3"));
    let arr = [String::from("0"), String::from("1"), String::from("2")];
    konst::destructure! {[_, .., l2] = arr}
    assert_eq!(l2, "2");
    let t = (String::from("t"), 5u8, vec![1u16]);
    konst::destructure! {(t0, _, t2) = t}
    assert_eq!((t0.as_str(), t2.len()), ("t", 1));
    rep.transitions += 5;

    // iterator DSL at run time (incl. collect-like use through for_each) and string iterators inside it
    let xs = [3u16, 1, 2, 5];
    let mut out = Vec::new();
    konst::iter::for_each! {((i, x), z) in &xs, rev(), enumerate(), zip(10u8..) => out.push((i, *x, z)); }
    assert_eq!(out.len(), 4);
    let c = konst::iter::eval!(konst::string::split("a,ñ,€", ","), flat_map(|s| konst::string::chars(s)), count());
    assert_eq!(c, 3);
    let f = konst::iter::eval!(konst::slice::windows(&xs, 2), rfind(|w| w[0] > w[1]));
    assert_eq!(f, Some(&[3u16, 1][..]));
    const CC: [(usize, &u16); 2] = konst::iter::collect_const!((usize, &u16) => &[7u16, 8, 9], enumerate(), skip(1));
    assert_eq!(CC, [(1, &8), (2, &9)]);
    const S: &str = konst::string::from_iter!(&["ñ", "€"], rev());
    assert_eq!(S, "€ñ");
    assert_eq!(konst::string::str_join!('€', &["a", "b"]), "a€b");
    assert_eq!(konst::slice::slice_concat!(u16, &[&[1], &[], &[2, 3]]), [1, 2, 3]);
    rep.transitions += 8;
    // string::from_utf8, chr
    assert!(konst::string::from_utf8(&[0xC3, 0xB1]).is_ok());
    assert!(konst::string::from_utf8(&[0xC3]).is_err());
    for n in [0u32, 0x7F, 0x80, 0x7FF, 0x800, 0xD7FF, 0xD800, 0xDFFF, 0xE000, 0xFFFF, 0x10000, 0x10FFFF, 0x110000, u32::MAX] {
        if let Some(c) = konst::chr::from_u32(n) {
            let e = konst::chr::encode_utf8(c);
            assert_eq!(e.as_str().chars().next(), Some(c));
            assert_eq!(unsafe { konst::chr::from_u32_unchecked(n) }, c);
        }
    }
    rep.transitions += 20;
}

pub fn run(tier: Tier, rep: &mut Report) -> (String, String) {
    let mut rule = String::new();
    if tier == Tier::Miri {
        let deep = miri_deep();
        let mut plan: Vec<(&str, Box<dyn Fn(&mut Report)>)> = vec![
            ("misc safe API (maybe_uninit, manually_drop, ptr, nonnull, array macros, destructure!, DSL, concat macros)", Box::new(|r| misc_safe_api(r))),
            ("C02 slice indexing", Box::new(|r| { crate::c02::run(Tier::Miri, r); })),
            ("C03 string slicing", Box::new(|r| { crate::c03::run(Tier::Miri, r); })),
            ("C04 search", Box::new(|r| { crate::c04::run(Tier::Miri, r); })),
            ("C05 strip/trim", Box::new(|r| { crate::c05::run(Tier::Miri, r); })),
            ("C06 split iterators", Box::new(|r| { crate::c06::run(Tier::Miri, r); })),
            ("C07 chars", Box::new(|r| { crate::c07::run(Tier::Miri, r); })),
            ("C08 slice iterators", Box::new(|r| { crate::c08::run(Tier::Miri, r); })),
            ("C09 ranges", Box::new(|r| { crate::c09::run(Tier::Miri, r); })),
            ("C15 consumer/builder ledger", Box::new(|r| { crate::c15::run("C15", Tier::Miri, r); })),
            ("C20 cstr", Box::new(|r| { crate::c20::run(Tier::Miri, r); })),
        ];
        if deep {
            plan.push(("C13 parser", Box::new(|r| { crate::c13::run("C13", Tier::Miri, r); })));
            plan.push(("C12 parsing", Box::new(|r| { crate::c12::run(Tier::Miri, r); })));
            plan.push(("C16 comparisons", Box::new(|r| { crate::c16::run(Tier::Miri, r); })));
        }
        // VERIF_C01_ENGINES=i,j,.. selects plan entries (the driver runs them as parallel interpreter processes)
        let only: Option<Vec<usize>> = std::env::var("VERIF_C01_ENGINES").ok().map(|s| s.split(',').filter_map(|x| x.parse().ok()).collect());
        for (pi, (name, f)) in plan.into_iter().enumerate() {
            if let Some(o) = &only {
                if !o.contains(&pi) {
                    continue;
                }
            }
            let t0 = std::time::Instant::now();
            eprintln!("C01-MIRI-ENGINE-START {name}");
            let mut r = Report::default();
            f(&mut r);
            eprintln!("C01-MIRI-ENGINE-DONE {name} states={} transitions={} violations={} in {:.1}s", r.states, r.transitions, r.violations_total, t0.elapsed().as_secs_f64());
            rep.eng(name, r.states, r.transitions);
            let (v, s, t) = (std::mem::take(&mut r.violations), r.states, r.transitions);
            let _ = (s, t);
            rep.traces += r.traces;
            rep.range_checks += r.range_checks;
            rep.utf8_checks += r.utf8_checks;
            rep.machinery_errors.extend(r.machinery_errors);
            // functional disagreements belong to their own property's check; C01 keeps only the location / UTF-8 oracle's verdicts
            for x in v {
                let o = format!("{} {}", x.expected, x.observed);
                if o.contains("sub-string") || o.contains("outside") || o.contains("not valid UTF-8") || o.contains("char boundaries") || o.contains("Outside") {
                    rep.violation(x);
                }
            }
            rep.sample(|| format!("under Miri: {name}"));
        }
        rep.nontrivial = rep.transitions / 2;
        rule = "every bounded explorer of C02-C09, C15, C20 (thorough: also C12, C13, C16) at the reduced `miri` bound plus a driver for the remaining safe unsafe-backed API, executed by the Miri interpreter (oracle: Miri's UB detection: out-of-bounds pointer arithmetic, uninitialised reads, invalid char/bool/reference, misalignment, Stacked Borrows)".into();
    } else {
        // native: only the engines carrying the sub-range / UTF-8 oracle; keep only the oracle's verdicts
        let plan: Vec<(&str, Box<dyn Fn(&mut Report)>)> = vec![
            ("C03", Box::new(move |r| { crate::c03::run(tier, r); })),
            ("C04", Box::new(move |r| { crate::c04::run(tier, r); })),
            ("C05", Box::new(move |r| { crate::c05::run(tier, r); })),
            ("C06", Box::new(move |r| { crate::c06::run(tier, r); })),
            ("C13", Box::new(move |r| { crate::c13::run("C13", tier, r); })),
            ("C20", Box::new(move |r| { crate::c20::run(tier, r); })),
        ];
        for (name, f) in plan {
            let mut r = Report::default();
            f(&mut r);
            rep.eng(name, r.states, r.transitions);
            rep.range_checks += r.range_checks;
            rep.utf8_checks += r.utf8_checks;
            rep.traces += r.traces;
            for x in r.violations {
                let o = format!("{} {}", x.expected, x.observed);
                if o.contains("sub-string") || o.contains("outside") || o.contains("not valid UTF-8") || o.contains("char boundaries") || o.contains("Outside") {
                    rep.violation(x);
                }
            }
        }
        misc_safe_api(rep);
        rep.sample(|| "native sub-range / UTF-8 oracle over the string engines (C03, C04, C05, C06, C13, C20)".into());
        rep.nontrivial = rep.range_checks;
        rule.push_str("native stage: every non-empty &str / slice returned during the C03, C04, C05, C06, C13, C20 explorations must lie inside the argument it was derived from, be valid UTF-8 and start/end on char boundaries of that argument (range_checks / utf8_checks count the checks)");
    }
    (rule, format!("see the per-engine bounds of the respective properties (tier {})", tier.name()))
}

pub fn replay(_case: &str, rep: &mut Report) {
    run(Tier::Quick, rep);
}
