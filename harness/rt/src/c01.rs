//! C01 — run-time UB monitor. Under Miri (`cargo +nightly miri run -p rt -- C01 --tier miri`) this driver
//! re-runs the bounded explorers of the other properties at reduced bounds plus a driver for the remaining
//! safe unsafe-backed API (maybe_uninit, manually_drop, ptr, nonnull, array macros, destructure!, DSL macros,
//! collect_const! at run time). Miri itself is the oracle for out-of-bounds pointer arithmetic, uninitialised
//! reads, invalid values, misalignment and aliasing violations; a marker line on stderr names the engine that
//! was running. Natively (`--tier quick|thorough`) it runs the engines that carry the sub-range / UTF-8 oracle
//! and keeps only the oracle's verdicts.
use crate::common::*;
use std::mem::{ManuallyDrop, MaybeUninit};

/// the driver's own asserts compare against hand-computed values; a failing assert (or any panic) means a safe API
/// returned garbage or panicked unexpectedly: reported as a violation, not as a harness crash
fn misc_safe_api(rep: &mut Report) {
    if let Err(p) = catch(|| misc_safe_api_inner(rep)) {
        // a wrong *value* is a functional matter of C11/C15/C19/...; C01 only owns undefined behaviour, which the
        // interpreters flag by themselves. Natively an assertion failure here is recorded, not judged.
        rep.notes.push(format!("misc safe-API driver stopped at an assertion/panic (functional, not a C01 verdict): {p}"));
    }
}

fn misc_safe_api_inner(rep: &mut Report) {
    use konst::{manually_drop, maybe_uninit, ptr};
    // maybe_uninit
    let arr: [MaybeUninit<String>; 3] = maybe_uninit::uninit_array::<String, 3>();
    let mut arr = arr;
    for (i, slot) in arr.iter_mut().enumerate() {
        let r = maybe_uninit::write(slot, format!("s{i}"));
        r.push('!');
        let _ = maybe_uninit::as_mut_ptr(slot);
    }
    let init: [String; 3] = unsafe { maybe_uninit::array_assume_init(arr) };
    assert_eq!(init, ["s0!", "s1!", "s2!"]);
    let z: [MaybeUninit<u64>; 0] = maybe_uninit::uninit_array::<u64, 0>();
    let _: [u64; 0] = unsafe { maybe_uninit::array_assume_init(z) };
    // manually_drop
    let mut md = ManuallyDrop::new(String::from("md"));
    assert_eq!(manually_drop::as_inner(&md), "md");
    manually_drop::as_inner_mut(&mut md).push('x');
    let s = unsafe { manually_drop::take(&mut md) };
    assert_eq!(s, "mdx");
    // ptr / nonnull on null and valid pointers
    let v = 5u32;
    assert!(!ptr::is_null(&v as *const u32));
    assert!(ptr::is_null(std::ptr::null::<u32>()));
    assert!(ptr::is_null(std::ptr::null::<[u8; 0]>()));
    assert_eq!(unsafe { ptr::as_ref(&v as *const u32) }, Some(&5));
    assert_eq!(unsafe { ptr::as_ref(std::ptr::null::<u32>()) }, None);
    let mut w = 6u32;
    assert_eq!(unsafe { ptr::as_mut(&mut w as *mut u32) }, Some(&mut 6));
    assert_eq!(unsafe { ptr::as_mut(std::ptr::null_mut::<u32>()) }, None);
    assert!(ptr::nonnull::new(std::ptr::null_mut::<u32>()).is_none());
    let nn = ptr::nonnull::new(&mut w as *mut u32).unwrap();
    assert_eq!(unsafe { *ptr::nonnull::as_ref(nn) }, 6);
    unsafe { *ptr::nonnull::as_mut(nn) = 7 };
    assert_eq!(w, 7);
    let nr = ptr::nonnull::from_ref(&v);
    assert_eq!(unsafe { *nr.as_ref() }, 5);
    let nm = ptr::nonnull::from_mut(&mut w);
    assert_eq!(unsafe { *nm.as_ref() }, 7);
    let sl: &[u8] = &[1, 2, 3];
    let ns = ptr::nonnull::from_ref(sl);
    assert_eq!(unsafe { ns.as_ref() }, &[1, 2, 3]);
    rep.transitions += 30;
    rep.states += 1;

    misc_macros(rep);
    // string::from_utf8, chr
    assert!(konst::string::from_utf8(&[0xC3, 0xB1]).is_ok());
    assert!(konst::string::from_utf8(&[0xC3]).is_err());
    for n in [0u32, 0x7F, 0x80, 0x7FF, 0x800, 0xD7FF, 0xD800, 0xDFFF, 0xE000, 0xFFFF, 0x10000, 0x10FFFF, 0x110000, u32::MAX] {
        if let Some(c) = konst::chr::from_u32(n) {
            let e = konst::chr::encode_utf8(c);
            assert_eq!(e.as_str().chars().next(), Some(c));
            assert_eq!(unsafe { konst::chr::from_u32_unchecked(n) }, c);
        }
    }
    rep.transitions += 20;
}

#[cfg(not(feature = "misc_macros"))]
fn misc_macros(rep: &mut Report) {
    rep.notes.push("NOT-COMPILED: the macro half of the misc safe-API driver is not part of this build (it does not build against this tree)".into());
}

#[cfg(feature = "misc_macros")]
use crate::c01m::misc_macros;

macro_rules! engine_fn {
    ($f:ident, $feat:literal, $name:literal, |$t:ident, $r:ident| $body:expr) => {
        #[cfg(feature = $feat)]
        fn $f($t: Tier, $r: &mut Report) {
            $body;
        }
        #[cfg(not(feature = $feat))]
        fn $f(_t: Tier, r: &mut Report) {
            r.notes.push(format!("NOT-COMPILED: engine {} is not part of this build (its module does not build against this tree)", $name));
        }
    };
}
engine_fn!(e_c02, "e02", "C02", |t, r| crate::c02::run(t, r));
engine_fn!(e_c03, "e03", "C03", |t, r| crate::c03::run(t, r));
engine_fn!(e_c04, "e04", "C04", |t, r| crate::c04::run(t, r));
engine_fn!(e_c05, "e05", "C05", |t, r| crate::c05::run(t, r));
engine_fn!(e_c06, "e06", "C06", |t, r| crate::c06::run(t, r));
engine_fn!(e_c07, "e07", "C07", |t, r| crate::c07::run(t, r));
engine_fn!(e_c08, "e08", "C08", |t, r| crate::c08::run(t, r));
engine_fn!(e_c09, "e09", "C09", |t, r| crate::c09::run(t, r));
engine_fn!(e_c12, "e12", "C12", |t, r| crate::c12::run(t, r));
engine_fn!(e_c13, "e13", "C13", |t, r| crate::c13::run("C13", t, r));
engine_fn!(e_c15, "e15", "C15", |t, r| crate::c15::run("C15", t, r));
engine_fn!(e_c16, "e16", "C16", |t, r| crate::c16::run(t, r));
engine_fn!(e_c20, "e20", "C20", |t, r| crate::c20::run(t, r));

/// does a Debug rendering contain a `\u{X}` escape whose value is not a Unicode scalar value?
fn mentions_invalid_char(s: &str) -> bool {
    let mut rest = s;
    while let Some(i) = rest.find("\\u{") {
        rest = &rest[i + 3..];
        let hex: String = rest.chars().take_while(|c| c.is_ascii_hexdigit()).collect();
        if let Ok(v) = u32::from_str_radix(&hex, 16) {
            if v > 0x10FFFF || (0xD800..=0xDFFF).contains(&v) {
                return true;
            }
        }
    }
    false
}

pub fn run(tier: Tier, rep: &mut Report) -> (String, String) {
    let mut rule = String::new();
    if tier == Tier::Miri {
        let deep = miri_deep();
        let mut plan: Vec<(&str, Box<dyn Fn(&mut Report)>)> = vec![
            ("misc safe API (maybe_uninit, manually_drop, ptr, nonnull, array macros, destructure!, DSL, concat macros)", Box::new(|r| misc_safe_api(r))),
            ("C02 slice indexing", Box::new(|r| e_c02(Tier::Miri, r))),
            ("C03 string slicing", Box::new(|r| e_c03(Tier::Miri, r))),
            ("C04 search", Box::new(|r| e_c04(Tier::Miri, r))),
            ("C05 strip/trim", Box::new(|r| e_c05(Tier::Miri, r))),
            ("C06 split iterators", Box::new(|r| e_c06(Tier::Miri, r))),
            ("C07 chars", Box::new(|r| e_c07(Tier::Miri, r))),
            ("C08 slice iterators", Box::new(|r| e_c08(Tier::Miri, r))),
            ("C09 ranges", Box::new(|r| e_c09(Tier::Miri, r))),
            ("C15 consumer/builder ledger", Box::new(|r| e_c15(Tier::Miri, r))),
            ("C20 cstr", Box::new(|r| e_c20(Tier::Miri, r))),
        ];
        if deep {
            plan.push(("C13 parser", Box::new(|r| e_c13(Tier::Miri, r))));
            plan.push(("C12 parsing", Box::new(|r| e_c12(Tier::Miri, r))));
            plan.push(("C16 comparisons", Box::new(|r| e_c16(Tier::Miri, r))));
        }
        // VERIF_C01_ENGINES=i,j,.. selects plan entries (the driver runs them as parallel interpreter processes)
        let only: Option<Vec<usize>> = std::env::var("VERIF_C01_ENGINES").ok().map(|s| s.split(',').filter_map(|x| x.parse().ok()).collect());
        for (pi, (name, f)) in plan.into_iter().enumerate() {
            if let Some(o) = &only {
                if !o.contains(&pi) {
                    continue;
                }
            }
            let t0 = std::time::Instant::now();
            eprintln!("C01-MIRI-ENGINE-START {name}");
            let mut r = Report::default();
            f(&mut r);
            eprintln!("C01-MIRI-ENGINE-DONE {name} states={} transitions={} violations={} in {:.1}s", r.states, r.transitions, r.violations_total, t0.elapsed().as_secs_f64());
            rep.eng(name, r.states, r.transitions);
            let (v, s, t) = (std::mem::take(&mut r.violations), r.states, r.transitions);
            let _ = (s, t);
            rep.traces += r.traces;
            rep.range_checks += r.range_checks;
            rep.utf8_checks += r.utf8_checks;
            rep.machinery_errors.extend(r.machinery_errors);
            rep.notes.extend(r.notes.iter().filter(|n| n.starts_with("NOT-COMPILED")).cloned());
            // functional disagreements belong to their own property's check; C01 keeps only the location / UTF-8 oracle's verdicts
            for x in v {
                let o = format!("{} {}", x.expected, x.observed);
                if o.contains("sub-string") || o.contains("outside") || o.contains("not valid UTF-8") || o.contains("char boundaries") || o.contains("Outside") {
                    rep.violation(x);
                }
            }
            rep.sample(|| format!("under Miri: {name}"));
        }
        rep.nontrivial = rep.transitions / 2;
        rule = "every bounded explorer of C02-C09, C15, C20 (thorough: also C12, C13, C16) at the reduced `miri` bound plus a driver for the remaining safe unsafe-backed API, executed by the Miri interpreter (oracle: Miri's UB detection: out-of-bounds pointer arithmetic, uninitialised reads, invalid char/bool/reference, misalignment, Stacked Borrows)".into();
    } else {
        // native: only the engines carrying the sub-range / UTF-8 oracle; keep only the oracle's verdicts
        let plan: Vec<(&str, Box<dyn Fn(&mut Report)>)> = vec![
            ("C03", Box::new(move |r| e_c03(tier, r))),
            ("C04", Box::new(move |r| e_c04(tier, r))),
            ("C05", Box::new(move |r| e_c05(tier, r))),
            ("C06", Box::new(move |r| e_c06(tier, r))),
            ("C13", Box::new(move |r| e_c13(tier, r))),
            ("C20", Box::new(move |r| e_c20(tier, r))),
            // chars / char_indices / from_u32: a yielded value that is not a Unicode scalar value is an invalid `char`
            ("C07", Box::new(move |r| e_c07(tier, r))),
        ];
        for (name, f) in plan {
            let mut r = Report::default();
            f(&mut r);
            rep.eng(name, r.states, r.transitions);
            rep.range_checks += r.range_checks;
            rep.utf8_checks += r.utf8_checks;
            rep.traces += r.traces;
            rep.notes.extend(r.notes.iter().filter(|n| n.starts_with("NOT-COMPILED")).cloned());
            for x in r.violations {
                let o = format!("{} {}", x.expected, x.observed);
                if o.contains("sub-string") || o.contains("outside") || o.contains("not valid UTF-8") || o.contains("char boundaries") || o.contains("Outside") {
                    rep.violation(x);
                } else if mentions_invalid_char(&x.observed) {
                    let mut x = x;
                    x.expected = format!("only valid chars (Unicode scalar values); functionally: {}", x.expected);
                    x.observed = format!("an invalid char was produced: {}", x.observed);
                    rep.violation(x);
                }
            }
        }
        misc_safe_api(rep);
        rep.sample(|| "native sub-range / UTF-8 oracle over the string engines (C03, C04, C05, C06, C13, C20) and valid-char oracle over C07".into());
        rep.nontrivial = rep.range_checks;
        rule.push_str("native stage: every non-empty &str / slice returned during the C03, C04, C05, C06, C13, C20 explorations must lie inside the argument it was derived from, be valid UTF-8 and start/end on char boundaries of that argument (range_checks / utf8_checks count the checks); every char yielded during the C07 exploration (chars, char_indices, from_u32) must be a Unicode scalar value");
    }
    (rule, format!("see the per-engine bounds of the respective properties (tier {})", tier.name()))
}

pub fn replay(_case: &str, rep: &mut Report) {
    run(Tier::Quick, rep);
}
