//! E2 "tree" explorer: every sequence of next / next_back on a konst double-ended iterator,
//! lock-step with a reference (std) iterator. A node is a history; children are made from copies.
use crate::common::*;

pub trait KIter: Sized {
    type Item;
    fn kcopy(&self) -> Self;
    fn knext(self) -> Option<(Self::Item, Self)>;
    fn knext_back(self) -> Option<(Self::Item, Self)>;
}

/// Reference iterator with an explicit direction flag (so the underlying std iterator stays
/// accessible for `as_slice()` / `remainder()` / `as_str()` comparisons).
#[derive(Clone)]
pub struct RefIt<I> {
    pub it: I,
    pub reversed: bool,
}
impl<I: DoubleEndedIterator> RefIt<I> {
    pub fn front(&mut self) -> Option<I::Item> {
        if self.reversed {
            self.it.next_back()
        } else {
            self.it.next()
        }
    }
    pub fn back(&mut self) -> Option<I::Item> {
        if self.reversed {
            self.it.next()
        } else {
            self.it.next_back()
        }
    }
}

pub struct TreeCtx<'a> {
    pub rep: &'a mut Report,
    pub engine: &'a str,
    /// lazily builds (replay prefix "<kind>|<params>", human description); the path is appended
    pub describe: &'a dyn Fn() -> (String, String),
    /// if set, only this path (string of 'f'/'b') is followed
    pub only: Option<Vec<u8>>,
    pub max_depth: usize,
    /// true: max_depth is a stated bound of the family (the iterator has astronomically many items), not a safety cap
    pub depth_is_bound: bool,
    pub nodes: u64,
    pub leaves: u64,
}

impl TreeCtx<'_> {
    fn fail(&mut self, path: &[u8], what: &str, exp: String, obs: String) {
        let p = String::from_utf8_lossy(path).to_string();
        let (replay_prefix, desc) = (self.describe)();
        self.rep.violation(viol(
            self.engine,
            what,
            format!("{}|{}", replay_prefix, p),
            format!("{} after steps [{}] (f=next, b=next_back): {}", desc, p, what),
            exp,
            obs,
        ));
    }
}

/// `obs_k`/`obs_r` map items to a comparable observation, `ext_k`/`ext_r` map iterator states to
/// comparable "extras" (as_slice / remainder / as_str ...).
#[allow(clippy::too_many_arguments)]
pub fn explore<K, I, O, E>(
    c: &mut TreeCtx,
    k: K,
    r: RefIt<I>,
    obs_k: &dyn Fn(&K::Item) -> O,
    obs_r: &dyn Fn(&I::Item) -> O,
    ext_k: &dyn Fn(&K) -> E,
    ext_r: &dyn Fn(&RefIt<I>) -> E,
    path: &mut Vec<u8>,
) where
    K: KIter,
    I: DoubleEndedIterator + Clone,
    O: PartialEq + std::fmt::Debug + std::hash::Hash,
    E: PartialEq + std::fmt::Debug + std::hash::Hash,
{
    c.nodes += 1;
    c.rep.states += 1;
    // extras at every node
    let (ek, er) = (catch(|| ext_k(&k)), ext_r(&r));
    match ek {
        Ok(ek) => {
            c.rep.outcome(&("ext", &ek));
            if ek != er {
                c.fail(path, "state accessor (as_slice/remainder/as_str)", format!("{er:?}"), format!("{ek:?}"));
                return;
            }
        }
        Err(p) => {
            c.fail(path, "state accessor (as_slice/remainder/as_str)", format!("{er:?}"), format!("panic: {p}"));
            return;
        }
    }
    if path.len() >= c.max_depth {
        if !c.depth_is_bound && c.rep.caps_hit.len() < 5 {
            let d = (c.describe)().1;
            c.rep.caps_hit.push(format!("{}: depth cap {} reached", d, c.max_depth));
        }
        return;
    }
    let mut any = false;
    for op in [b'f', b'b'] {
        if let Some(only) = &c.only {
            if only.get(path.len()) != Some(&op) {
                continue;
            }
        }
        c.rep.transitions += 1;
        c.rep.evaluations += 1;
        let kc = k.kcopy();
        let kres = catch(move || if op == b'f' { kc.knext() } else { kc.knext_back() });
        let mut rc = r.clone();
        let rres = if op == b'f' { rc.front() } else { rc.back() };
        path.push(op);
        match (kres, rres) {
            (Err(p), e) => c.fail(path, if op == b'f' { "next" } else { "next_back" }, format!("{:?}", e.as_ref().map(obs_r)), format!("panic: {p}")),
            (Ok(None), None) => {}
            (Ok(Some((ki, kn))), Some(ri)) => {
                let (ok, or) = (obs_k(&ki), obs_r(&ri));
                c.rep.outcome(&(op, &ok));
                if ok != or {
                    c.fail(path, if op == b'f' { "next" } else { "next_back" }, format!("Some({or:?})"), format!("Some({ok:?})"));
                } else {
                    any = true;
                    explore(c, kn, rc, obs_k, obs_r, ext_k, ext_r, path);
                }
            }
            (Ok(Some((ki, _))), None) => c.fail(path, if op == b'f' { "next" } else { "next_back" }, "None".into(), format!("Some({:?})", obs_k(&ki))),
            (Ok(None), Some(ri)) => c.fail(path, if op == b'f' { "next" } else { "next_back" }, format!("Some({:?})", obs_r(&ri)), "None".into()),
        }
        path.pop();
    }
    if !any {
        c.leaves += 1;
        c.rep.traces += 1;
    }
}

#[macro_export]
macro_rules! impl_kiter {
    (impl[$($g:tt)*] $ty:ty, $item:ty) => {
        impl<$($g)*> $crate::tree::KIter for $ty {
            type Item = $item;
            fn kcopy(&self) -> Self { self.copy() }
            fn knext(self) -> Option<(Self::Item, Self)> { self.next() }
            fn knext_back(self) -> Option<(Self::Item, Self)> { self.next_back() }
        }
    };
}

pub fn no_ext<X>(_: &X) {}
