//! C20 (CStr part) — CStr constructors / conversions = core::ffi::CStr (E1: all byte strings over {0,'a',0xC3,0xB1,0xFF}).
use crate::common::*;
use konst::ffi::cstr as kc;
use std::ffi::CStr;

fn one(rep: &mut Report, b: &[u8]) {
    rep.states += 1;
    let fail = |rep: &mut Report, f: &str, exp: String, obs: String| {
        rep.violation(viol("cstr", f, hex(b), format!("{f}({b:02x?})"), exp, obs));
    };
    // constructors: success/failure agreement, equal CStr, same bytes by address
    let d = |r: Result<&CStr, ()>| r.map(|c| (c.to_bytes_with_nul().to_vec(), loc(b, c.to_bytes_with_nul())));
    rep.transitions += 2;
    let e = d(CStr::from_bytes_until_nul(b).map_err(|_| ()));
    let g = catch(|| d(kc::from_bytes_until_nul(b).map_err(|_| ())));
    rep.outcome(&("until", g.as_ref().ok().map(|x| x.is_ok())));
    if g.as_ref().ok() != Some(&e) {
        fail(rep, "from_bytes_until_nul", format!("{e:02x?}"), format!("{g:02x?}"));
    }
    let e = d(CStr::from_bytes_with_nul(b).map_err(|_| ()));
    let g = catch(|| d(kc::from_bytes_with_nul(b).map_err(|_| ())));
    rep.outcome(&("with", g.as_ref().ok().map(|x| x.is_ok())));
    if g.as_ref().ok() != Some(&e) {
        fail(rep, "from_bytes_with_nul", format!("{e:02x?}"), format!("{g:02x?}"));
    }
    if b.iter().filter(|&&x| x == 0).count() >= 1 && b.last() != Some(&0) || b.iter().filter(|&&x| x == 0).count() >= 2 {
        rep.nontrivial(|| format!("{b:02x?} (interior nul / nul not last)"));
    }
    // conversions on every CStr std can build from a prefix of b
    if let Ok(c) = CStr::from_bytes_until_nul(b) {
        rep.transitions += 3;
        let l = |x: &[u8]| (x.to_vec(), loc(b, x));
        // to_str is compared as bytes: a returned &str that is not UTF-8 must never be formatted, copied as a String or iterated
        let (e1, e2, e3) = (l(c.to_bytes()), l(c.to_bytes_with_nul()), c.to_str().map(|s| s.as_bytes().to_vec()).map_err(|_| ()));
        let g = catch(|| (l(kc::to_bytes(c)), l(kc::to_bytes_with_nul(c)), kc::to_str(c).map(|s| s.as_bytes().to_vec()).map_err(|_| ())));
        if g.as_ref().ok() != Some(&(e1.clone(), e2.clone(), e3.clone())) {
            fail(rep, "to_bytes/to_bytes_with_nul/to_str", format!("{:02x?}", (e1, e2, e3)), format!("{g:02x?}"));
        }
        if let Ok(Ok(s)) = catch(|| kc::to_str(c)) {
            rep.utf8_checks += 1;
            if std::str::from_utf8(s.as_bytes()).is_err() {
                fail(rep, "to_str", "valid UTF-8".into(), format!("{:02x?}", s.as_bytes()));
            }
        }
    }
}

pub fn run(tier: Tier, rep: &mut Report) -> (String, String) {
    let alpha: &[u8] = &[0, b'a', 0xC3, 0xB1, 0xFF];
    let n = tier.pick(7, 9, 2);
    let all = bytes_over(alpha, n);
    rep.merge(par_each(&all, n_threads(tier), |b, r| {
        one(r, b);
        r.sample(|| format!("{b:02x?}"));
    }));
    // longer inputs (word-at-a-time nul searches only differ from a byte loop at 8 bytes and more): a filler with one byte
    // from {0x01, 0x80, 0xFF} at every position and a nul at every position (and no nul at all), lengths 8..=17 (t ..=25)
    if tier != Tier::Miri {
        let maxl = tier.pick(17, 25, 0);
        let mut long: Vec<Vec<u8>> = Vec::new();
        for len in 8..=maxl {
            for special in [0x01u8, 0x80, 0xFF] {
                for sp in 0..len {
                    for nul in (0..=len).filter(|&n| n != sp) {
                        let mut v = vec![b'a'; len];
                        v[sp] = special;
                        if nul < len {
                            v[nul] = 0;
                        }
                        long.push(v);
                    }
                }
            }
            // two nuls
            for n1 in 0..len {
                for n2 in n1 + 1..len {
                    let mut v = vec![0xC3u8; len];
                    v[n1] = 0;
                    v[n2] = 0;
                    long.push(v);
                }
            }
        }
        rep.merge(par_each(&long, n_threads(tier), |b, r| one(r, b)));
    }
    rep.traces = rep.transitions;
    (
        "state = one byte string; transitions = from_bytes_until_nul, from_bytes_with_nul (success/failure agreement with core::ffi::CStr, equal CStr, same bytes by address) and to_bytes / to_bytes_with_nul / to_str on the CStr std builds from it; non-trivial = an interior nul or a nul that is not last".into(),
        format!("all byte strings of length <= {n} over {alpha:02x?} ({}); lengths 8..={}: a filler with one byte of [01, 80, ff] at every position x a nul at every position or none, and every pair of nul positions", all.len(), tier.pick(17, 25, 0)),
    )
}

pub fn replay(case: &str, rep: &mut Report) {
    one(rep, &unhex(case));
}
