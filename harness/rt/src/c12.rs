//! C12 — integer / bool parsing = std's language and value (E1).
use crate::c13::int_prefix;
use crate::common::*;
use konst::Parser;

struct Ctx<'a> {
    rep: &'a mut Report,
    ty: &'static str,
}
impl Ctx<'_> {
    fn fail(&mut self, func: &str, s: &str, exp: String, obs: String) {
        self.rep.violation(viol("parse", func, format!("{}|{}", self.ty, hexs(s)), format!("{func}::<{}>({s:?})", self.ty), exp, obs));
    }
}

/// decimal string + 1 / - 1 on arbitrary-length magnitudes (for neighbourhoods beyond u128)
fn dec_add1(d: &str) -> String {
    let mut v: Vec<u8> = d.bytes().collect();
    let mut i = v.len();
    loop {
        if i == 0 {
            v.insert(0, b'1');
            break;
        }
        i -= 1;
        if v[i] == b'9' {
            v[i] = b'0';
        } else {
            v[i] += 1;
            break;
        }
    }
    String::from_utf8(v).unwrap()
}

macro_rules! int_type {
    ($fname:ident, $T:ty, $name:literal, $whole:path, $method:ident, signed = $signed:expr) => {
        fn $fname(rep: &mut Report, inputs: &[String], suffixes: &[&str]) {
            let mut c = Ctx { rep, ty: $name };
            // the parser argument of parse_with! is an expression: it is evaluated exactly once
            {
                let mut evals = 0u32;
                let r = catch(|| konst::parse_with!({ evals += 1; if evals == 1 { Parser::new("12x") } else { Parser::new("7") } }, $T).map(|(v, p)| (v.to_string(), p.remainder().to_string())).map_err(|_| ()));
                c.rep.transitions += 1;
                if r != Ok(Ok(("12".to_string(), "x".to_string()))) || evals != 1 {
                    c.fail("parse_with!(side-effecting parser expression)", "12x", "Ok((12, \"x\")), 1 evaluation".into(), format!("{r:?}, {evals} evaluations"));
                }
            }
            for s in inputs {
                c.rep.states += 1;
                // ---- whole string
                c.rep.transitions += 1;
                c.rep.evaluations += 1;
                let exp: Option<$T> = if s.starts_with('+') { None } else { s.parse::<$T>().ok() };
                let got = catch(|| $whole(s).ok());
                c.rep.outcome(&($name, got.as_ref().ok().map(|x| x.is_some())));
                if got.as_ref().ok() != Some(&exp) {
                    c.fail("primitive::parse", s, format!("{exp:?}"), format!("{got:?}"));
                }
                if exp.is_none() && s.bytes().any(|b| b.is_ascii_digit()) {
                    c.rep.nontrivial(|| format!("{}: {:?} must be rejected", $name, s));
                }
                // ---- prefix parsing with every suffix
                for suf in suffixes {
                    let full = format!("{s}{suf}");
                    c.rep.transitions += 2;
                    c.rep.evaluations += 2;
                    let m = int_prefix(&full, $signed, <$T>::MIN as i128, <$T>::MAX as u128);
                    for (which, r) in [
                        ("Parser::parse", catch(|| Parser::new(&full).$method().map(|(v, p)| (v.to_string(), loc_str(&full, p.remainder()), p.remainder().len())).map_err(|_| ()))),
                        ("parse_with!", catch(|| konst::parse_with!(Parser::new(&full), $T).map(|(v, p)| (v.to_string(), loc_str(&full, p.remainder()), p.remainder().len())).map_err(|_| ()))),
                    ] {
                        let exp = match &m {
                            Some((v, n)) => Ok((v.clone(), if *n == full.len() { Loc::Empty } else { Loc::At(*n, full.len() - n) }, full.len() - n)),
                            None => Err(()),
                        };
                        match r {
                            Ok(r) if r == exp => {}
                            other => c.fail(which, &full, format!("{exp:?}"), format!("{other:?}")),
                        }
                    }
                }
            }
        }
    };
}

use konst::primitive as kp;
int_type! {t_u8, u8, "u8", kp::parse_u8, parse_u8, signed = false}
int_type! {t_i8, i8, "i8", kp::parse_i8, parse_i8, signed = true}
int_type! {t_u16, u16, "u16", kp::parse_u16, parse_u16, signed = false}
int_type! {t_i16, i16, "i16", kp::parse_i16, parse_i16, signed = true}
int_type! {t_u32, u32, "u32", kp::parse_u32, parse_u32, signed = false}
int_type! {t_i32, i32, "i32", kp::parse_i32, parse_i32, signed = true}
int_type! {t_u64, u64, "u64", kp::parse_u64, parse_u64, signed = false}
int_type! {t_i64, i64, "i64", kp::parse_i64, parse_i64, signed = true}
int_type! {t_u128, u128, "u128", kp::parse_u128, parse_u128, signed = false}
int_type! {t_i128, i128, "i128", kp::parse_i128, parse_i128, signed = true}
int_type! {t_usize, usize, "usize", kp::parse_usize, parse_usize, signed = false}
int_type! {t_isize, isize, "isize", kp::parse_isize, parse_isize, signed = true}

fn t_bool(rep: &mut Report, inputs: &[String], suffixes: &[&str]) {
    let mut c = Ctx { rep, ty: "bool" };
    for s in inputs {
        c.rep.states += 1;
        c.rep.transitions += 1;
        let exp = s.parse::<bool>().ok();
        let got = catch(|| kp::parse_bool(s).ok());
        if got.as_ref().ok() != Some(&exp) {
            c.fail("primitive::parse_bool", s, format!("{exp:?}"), format!("{got:?}"));
        }
        for suf in suffixes {
            let full = format!("{s}{suf}");
            c.rep.transitions += 1;
            let exp = if full.starts_with("true") { Ok(("true".to_string(), 4usize)) } else if full.starts_with("false") { Ok(("false".to_string(), 5)) } else { Err(()) };
            let got = catch(|| Parser::new(&full).parse_bool().map(|(v, p)| (v.to_string(), full.len() - p.remainder().len())).map_err(|_| ()));
            match got {
                Ok(g) if g == exp => {
                    // remainder by address
                    if let Ok((_, n)) = &exp {
                        let p = Parser::new(&full).parse_bool().unwrap().1;
                        if p.remainder() != &full[*n..] || (!p.remainder().is_empty() && locate_str(&full, p.remainder()) != Some((*n, full.len() - n))) {
                            c.fail("Parser::parse_bool(remainder)", &full, format!("{:?}", &full[*n..]), format!("{:?}", p.remainder()));
                        }
                    }
                }
                other => c.fail("Parser::parse_bool", &full, format!("{exp:?}"), format!("{other:?}")),
            }
        }
    }
}

type F = fn(&mut Report, &[String], &[&str]);
const INTS: &[(&str, F, bool, u32)] = &[
    ("u8", t_u8, false, 8), ("i8", t_i8, true, 8), ("u16", t_u16, false, 16), ("i16", t_i16, true, 16),
    ("u32", t_u32, false, 32), ("i32", t_i32, true, 32), ("u64", t_u64, false, 64), ("i64", t_i64, true, 64),
    ("u128", t_u128, false, 128), ("i128", t_i128, true, 128), ("usize", t_usize, false, usize::BITS), ("isize", t_isize, true, isize::BITS),
];

/// neighbourhoods of MIN / MAX (+-2, one extra digit, leading zeros) for a type of the given width
fn neighbourhood(signed: bool, bits: u32) -> Vec<String> {
    let max_mag: String = if signed { if bits == 128 { (i128::MAX as u128).to_string() } else { ((1u128 << (bits - 1)) - 1).to_string() } } else if bits == 128 { u128::MAX.to_string() } else { ((1u128 << bits) - 1).to_string() };
    let mut mags = vec![max_mag.clone()];
    // MAX-2 ..= MAX+3 (MAX+1 is |MIN| for signed types)
    let mm: u128 = max_mag.parse().unwrap();
    mags.push((mm - 1).to_string());
    mags.push((mm - 2).to_string());
    let p1 = dec_add1(&max_mag);
    let p2 = dec_add1(&p1);
    let p3 = dec_add1(&p2);
    mags.extend([p1, p2, p3]);
    let mut out = Vec::new();
    for m in &mags {
        for z in ["", "0", "00", "0000000000000000000000000000000000000000"] {
            out.push(format!("{z}{m}"));
            out.push(format!("-{z}{m}"));
            out.push(format!("+{z}{m}"));
        }
        out.push(format!("{m}0")); // one extra digit
        out.push(format!("-{m}0"));
        out.push(format!("{m}9"));
        out.push(format!("1{m}"));
    }
    out.extend(["0", "-0", "00", "-00", "+0", "-", "+", "", "--1", "-+1", "+-1", "1-", "0x10", "1_0", " 1", "1 ", "１", "٣", "-٣"].map(String::from));
    out
}

pub fn run(tier: Tier, rep: &mut Report) -> (String, String) {
    let th = n_threads(tier);
    let n = tier.pick(5, 6, 2);
    // '/' and ':' are the ASCII neighbours of the digit range
    let mut small = strings_over(&["0", "1", "2", "9", "-", "+", "a", " ", "٣", "/", ":"], tier.pick(4, 5, 2));
    small.extend(strings_over(&["0", "1", "2", "9", "-", "+", "a", " ", "٣"], n));
    // every byte class boundary: each ASCII char (and a few non-ASCII ones) in every position of short digit templates
    let mut probes: Vec<char> = (0u8..128).map(|b| b as char).collect();
    probes.extend(['\u{80}', 'ñ', '٠', '٩', '０', '９', '\u{ff10}', '\u{1d7ce}', '\u{10ffff}']);
    for &c in if tier == Tier::Miri { &probes[..0] } else { &probes[..] } {
        for t in ["#", "-#", "#1", "1#", "-#1", "-1#", "1#1", "12#", "#-1", "+#"] {
            small.push(t.replace('#', &c.to_string()));
        }
    }
    small.sort();
    small.dedup();
    let suffixes: &[&str] = &["", "x", "-", "0a", " 1", "9", "ñ"];
    // every value of the 8- and 16-bit types, canonical and decorated
    let mut vals16: Vec<String> = Vec::new();
    if tier != Tier::Miri {
        for v in (i16::MIN as i32 - 3)..=(u16::MAX as i32 + 3) {
            vals16.push(v.to_string());
            if v.abs() < 300 || v % 97 == 0 {
                let (sg, m) = if v < 0 { ("-", -v) } else { ("", v) };
                vals16.push(format!("{sg}0{m}"));
                vals16.push(format!("{sg}00{m}"));
                vals16.push(format!("{v}x"));
                vals16.push(format!("+{m}"));
            }
        }
    }
    let edge_suffixes: Vec<String> = lead_byte_edge_chars().into_iter().flat_map(|c| [c.to_string(), format!("{c}1")]).collect();
    let edge_refs: Vec<&str> = edge_suffixes.iter().map(|s| s.as_str()).collect();
    let edge_inputs: Vec<String> = ["", "0", "1", "-1", "12", "-", "127", "128", "-128", "255", "256"].map(String::from).to_vec();
    let jobs: Vec<usize> = (0..INTS.len()).collect();
    rep.merge(par_each(&jobs, th, |&i, r| {
        let (name, f, signed, bits) = INTS[i];
        f(r, &small, suffixes);
        if bits <= 16 {
            f(r, &vals16, &["", "x"]);
        } else if tier != Tier::Miri {
            // wide types: 8/16-bit values are a sanity family only (every 7th)
            let sub: Vec<String> = vals16.iter().step_by(7).cloned().collect();
            f(r, &sub, &[""]);
        }
        let nb = neighbourhood(signed, bits);
        f(r, &nb, suffixes);
        // the unconsumed rest starts with the first and the last char of every UTF-8 lead-byte class
        if tier != Tier::Miri {
            f(r, &edge_inputs, &edge_refs);
        }
        r.sample(|| format!("{name}: {} small strings x {} suffixes, {} values, {} MIN/MAX neighbourhood strings", small.len(), suffixes.len(), vals16.len(), nb.len()));
    }));
    // bool
    let mut words: Vec<String> = vec!["true".into(), "false".into(), "".into(), "True".into(), "TRUE".into(), "1".into(), "0".into(), "yes".into()];
    for w in ["true", "false"] {
        let cs: Vec<char> = w.chars().collect();
        for i in 0..=cs.len() {
            for a in ['t', 'r', 'u', 'e', 'f', 'a', 'l', 's', ' ', 'ñ'] {
                let mut x = cs.clone();
                x.insert(i, a);
                words.push(x.iter().collect()); // insertion
                if i < cs.len() {
                    let mut y = cs.clone();
                    y[i] = a;
                    words.push(y.iter().collect()); // substitution
                }
            }
            if i < cs.len() {
                let mut z = cs.clone();
                z.remove(i);
                words.push(z.iter().collect()); // deletion
            }
        }
    }
    words.sort();
    words.dedup();
    t_bool(rep, &words, suffixes);
    if tier != Tier::Miri {
        t_bool(rep, &["true".to_string(), "false".to_string(), "tru".to_string()], &edge_refs);
    }
    rep.traces = rep.transitions;
    (
        "state = one input string (x suffix for prefix parsing); transition = primitive::parse_T (whole string), Parser::parse_T and parse_with!(parser, T) (prefix); oracle: whole string = str::parse::<T> unless the string starts with '+'; prefix = optional '-' (signed only) + longest ASCII-digit run, value by checked 128-bit accumulation, failure (an Err and no parser) if no digit or out of range, otherwise the unconsumed rest by address (offset bookkeeping belongs to C13); non-trivial = a string containing a digit that must be rejected".into(),
        format!("12 integer types + bool; all strings of <= {n} atoms over [0,1,2,9,-,+,a,' ',٣] and of <= {} atoms with '/' and ':' (the ASCII neighbours of the digits) added, every ASCII char and 9 non-ASCII digits/extremes in every position of 10 short digit templates ({} strings in all) x suffixes {suffixes:?}; every value from i16::MIN-3 to u16::MAX+3 (canonical; decorated with leading zeros, trailing x, leading + for |v|<300 and every 97th); per type MAX-2..MAX+3 with signs, 0/1/2/40 leading zeros, one extra digit; bool words within edit distance 1 of true/false ({}); 11 short numbers and true/false followed by the first and last char of every UTF-8 lead-byte class; parse_with! with a side-effecting parser expression (evaluated once)", tier.pick(4, 5, 2), small.len(), words.len()),
    )
}

pub fn replay(case: &str, rep: &mut Report) {
    let p: Vec<&str> = case.split('|').collect();
    let s = unhexs(p[1]);
    let suffixes: &[&str] = &[""];
    if p[0] == "bool" {
        return t_bool(rep, &[s], suffixes);
    }
    for (n, f, _, _) in INTS {
        if *n == p[0] {
            f(rep, &[s.clone()], suffixes);
        }
    }
}
