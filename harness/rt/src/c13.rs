//! C13 + C14 — Parser: E2 graph search to closure over all reachable parser states of each input,
//! every operation of the alphabet from every state, lock-step with a boring reference model.
//! C13 verdicts: offsets describe the remainder (by address), char boundaries, error offset/direction.
//! C14 verdicts: post-remainder = what the free string function computes, Ok/Err + error kind, returned value,
//!               split protocols from the initial state.
use crate::common::*;
use konst::parsing::{ErrorKind, ParseDirection, ParseError};
use konst::{string as kst, Parser};
use std::collections::{HashSet, VecDeque};

#[derive(Clone, Debug, PartialEq)]
pub enum Pat {
    S(&'static str),
    C(char),
}
impl Pat {
    fn as_string(&self) -> String {
        match self {
            Pat::S(s) => s.to_string(),
            Pat::C(c) => c.to_string(),
        }
    }
}

#[derive(Clone, Debug, PartialEq)]
pub enum Op {
    Trim,
    TrimStart,
    TrimEnd,
    TrimMatches(Pat),
    TrimStartMatches(Pat),
    TrimEndMatches(Pat),
    StripPrefix(Pat),
    StripSuffix(Pat),
    FindSkip(Pat),
    RFindSkip(Pat),
    Split(Pat),
    RSplit(Pat),
    SplitTerminator(Pat),
    RSplitTerminator(Pat),
    SplitKeep(Pat),
    Skip(usize),
    SkipBack(usize),
    ParseU8,
    ParseI8,
    ParseU64,
    ParseI128,
    ParseBool,
}

/// outcome of an op on the real parser / on the model, in comparable form
#[derive(Clone, Debug, PartialEq)]
struct Out {
    /// Ok: (returned value rendered, lo, hi) ; Err: error kind
    res: Result<(String, usize, usize), String>,
}

fn flag_of(p: &Parser<'_>) -> bool {
    format!("{p:?}").contains("yielded_last_split: true")
}

macro_rules! with_pat {
    ($pat:expr, |$p:ident| $body:expr) => {
        match $pat {
            Pat::S(s) => {
                let $p = *s;
                $body
            }
            Pat::C(c) => {
                let $p = *c;
                $body
            }
        }
    };
}

/// apply op on the real parser
fn apply<'a>(p: Parser<'a>, op: &Op) -> Result<(String, Parser<'a>), ParseError<'a>> {
    let v = |r: Result<(&'a str, Parser<'a>), ParseError<'a>>| r.map(|(s, p)| (format!("{s:?}"), p));
    let u = |r: Result<Parser<'a>, ParseError<'a>>| r.map(|p| (String::new(), p));
    match op {
        Op::Trim => Ok((String::new(), p.trim())),
        Op::TrimStart => Ok((String::new(), p.trim_start())),
        Op::TrimEnd => Ok((String::new(), p.trim_end())),
        Op::TrimMatches(pt) => Ok((String::new(), with_pat!(pt, |x| p.trim_matches(x)))),
        Op::TrimStartMatches(pt) => Ok((String::new(), with_pat!(pt, |x| p.trim_start_matches(x)))),
        Op::TrimEndMatches(pt) => Ok((String::new(), with_pat!(pt, |x| p.trim_end_matches(x)))),
        Op::StripPrefix(pt) => u(with_pat!(pt, |x| p.strip_prefix(x))),
        Op::StripSuffix(pt) => u(with_pat!(pt, |x| p.strip_suffix(x))),
        Op::FindSkip(pt) => u(with_pat!(pt, |x| p.find_skip(x))),
        Op::RFindSkip(pt) => u(with_pat!(pt, |x| p.rfind_skip(x))),
        Op::Split(pt) => v(with_pat!(pt, |x| p.split(x))),
        Op::RSplit(pt) => v(with_pat!(pt, |x| p.rsplit(x))),
        Op::SplitTerminator(pt) => v(with_pat!(pt, |x| p.split_terminator(x))),
        Op::RSplitTerminator(pt) => v(with_pat!(pt, |x| p.rsplit_terminator(x))),
        Op::SplitKeep(pt) => v(with_pat!(pt, |x| p.split_keep(x))),
        Op::Skip(n) => Ok((String::new(), p.skip(*n))),
        Op::SkipBack(n) => Ok((String::new(), p.skip_back(*n))),
        Op::ParseU8 => p.parse_u8().map(|(x, p)| (x.to_string(), p)),
        Op::ParseI8 => p.parse_i8().map(|(x, p)| (x.to_string(), p)),
        Op::ParseU64 => konst::parse_with!(p, u64).map(|(x, p)| (x.to_string(), p)),
        Op::ParseI128 => p.parse_i128().map(|(x, p)| (x.to_string(), p)),
        Op::ParseBool => p.parse_bool().map(|(x, p)| (x.to_string(), p)),
    }
}

fn from_end(op: &Op) -> bool {
    matches!(op, Op::TrimEnd | Op::TrimEndMatches(_) | Op::StripSuffix(_) | Op::RFindSkip(_) | Op::RSplit(_) | Op::RSplitTerminator(_) | Op::SkipBack(_))
}

/// prefix-integer model: optional '-' (signed), longest digit run, value must fit [min,max]
pub fn int_prefix(rem: &str, signed: bool, min: i128, max_u: u128) -> Option<(String, usize)> {
    let b = rem.as_bytes();
    let mut i = 0;
    let neg = signed && b.first() == Some(&b'-');
    if neg {
        i = 1;
    }
    let ds = i;
    // magnitude with saturation far above any supported type
    let mut mag: u128 = 0;
    let mut over = false;
    while i < b.len() && b[i].is_ascii_digit() {
        let (m, o1) = mag.overflowing_mul(10);
        let (m, o2) = m.overflowing_add((b[i] - b'0') as u128);
        over |= o1 | o2;
        mag = m;
        i += 1;
    }
    if i == ds || over {
        return None;
    }
    if neg {
        let lim = (min as i128).unsigned_abs();
        if mag > lim {
            return None;
        }
        let v = if mag == lim { min } else { -(mag as i128) };
        Some((v.to_string(), i))
    } else {
        if mag > max_u {
            return None;
        }
        Some((mag.to_string(), i))
    }
}

/// The boring reference model: one step from (remainder = input[lo..hi], flag).
/// For two-sided trim_matches the free function is the only defined reference (C14), so the model asks it.
fn model(input: &str, lo: usize, hi: usize, flag: bool, op: &Op) -> Out {
    let rem = &input[lo..hi];
    let ok = |v: String, l: usize, h: usize| Out { res: Ok((v, l, h)) };
    let err = |k: &str| Out { res: Err(k.to_string()) };
    let sub = |x: &str| -> (usize, usize) {
        // position of a std-produced sub-slice of rem inside input
        let (o, l) = locate_str(rem, x).unwrap_or((rem.len(), 0));
        (lo + o, lo + o + l)
    };
    match op {
        Op::Trim => { let (l, h) = sub(rem.trim_ascii()); if l == h { // all whitespace: std's empty result sits at an unspecified end; both ends are equally "trimmed"
                ok(String::new(), usize::MAX, usize::MAX) } else { ok(String::new(), l, h) } }
        Op::TrimStart => { let (l, h) = sub(rem.trim_ascii_start()); ok(String::new(), if l == h { hi } else { l }, hi) }
        Op::TrimEnd => { let (l, h) = sub(rem.trim_ascii_end()); ok(String::new(), lo, if l == h { lo } else { h }) }
        Op::TrimStartMatches(p) => { let ps = p.as_string(); let t = if ps.is_empty() { rem } else { rem.trim_start_matches(ps.as_str()) }; ok(String::new(), hi - t.len(), hi) }
        Op::TrimEndMatches(p) => { let ps = p.as_string(); let t = if ps.is_empty() { rem } else { rem.trim_end_matches(ps.as_str()) }; ok(String::new(), lo, lo + t.len()) }
        Op::TrimMatches(p) => {
            let t = with_pat!(p, |x| kst::trim_matches(rem, x));
            if t.is_empty() { ok(String::new(), usize::MAX, usize::MAX) } else { let (l, h) = sub(t); ok(String::new(), l, h) }
        }
        Op::StripPrefix(p) => { let ps = p.as_string(); if rem.starts_with(ps.as_str()) { ok(String::new(), lo + ps.len(), hi) } else { err("Strip") } }
        Op::StripSuffix(p) => { let ps = p.as_string(); if rem.ends_with(ps.as_str()) { ok(String::new(), lo, hi - ps.len()) } else { err("Strip") } }
        Op::FindSkip(p) => { let ps = p.as_string(); match rem.find(ps.as_str()) { Some(pos) => ok(String::new(), lo + pos + ps.len(), hi), None => err("Find") } }
        Op::RFindSkip(p) => { let ps = p.as_string(); if ps.is_empty() { return ok(String::new(), lo, hi); } match rem.rfind(ps.as_str()) { Some(pos) => ok(String::new(), lo, lo + pos), None => err("Find") } }
        Op::Split(p) => {
            let ps = p.as_string();
            if flag { return err("SplitExhausted"); }
            match rem.split_once(ps.as_str()) { Some((b, a)) => ok(format!("{b:?}"), hi - a.len(), hi), None => ok(format!("{rem:?}"), hi, hi) }
        }
        Op::RSplit(p) => {
            let ps = p.as_string();
            if flag { return err("SplitExhausted"); }
            match rem.rsplit_once(ps.as_str()) { Some((a, b)) => ok(format!("{b:?}"), lo, lo + a.len()), None => ok(format!("{rem:?}"), lo, lo) }
        }
        Op::SplitTerminator(p) => {
            let ps = p.as_string();
            if flag { return err("SplitExhausted"); }
            if rem.is_empty() { return err("DelimiterNotFound"); }
            match rem.split_once(ps.as_str()) { Some((b, a)) => ok(format!("{b:?}"), hi - a.len(), hi), None => err("DelimiterNotFound") }
        }
        Op::RSplitTerminator(p) => {
            let ps = p.as_string();
            if flag { return err("SplitExhausted"); }
            if rem.is_empty() { return err("DelimiterNotFound"); }
            match rem.rsplit_once(ps.as_str()) { Some((a, b)) => ok(format!("{b:?}"), lo, lo + a.len()), None => err("DelimiterNotFound") }
        }
        Op::SplitKeep(p) => {
            let ps = p.as_string();
            if flag { return err("SplitExhausted"); }
            match rem.find(ps.as_str()) { Some(pos) => ok(format!("{:?}", &rem[..pos]), lo + pos, hi), None => ok(format!("{rem:?}"), hi, hi) }
        }
        Op::Skip(n) => { let mut n = (*n).min(rem.len()); while !rem.is_char_boundary(n) { n += 1; } ok(String::new(), lo + n, hi) }
        Op::SkipBack(n) => { let mut pos = rem.len().saturating_sub(*n); while !rem.is_char_boundary(pos) { pos -= 1; } ok(String::new(), lo, lo + pos) }
        Op::ParseU8 => match int_prefix(rem, false, 0, u8::MAX as u128) { Some((v, n)) => ok(v, lo + n, hi), None => err("ParseInteger") },
        Op::ParseI8 => match int_prefix(rem, true, i8::MIN as i128, i8::MAX as u128) { Some((v, n)) => ok(v, lo + n, hi), None => err("ParseInteger") },
        Op::ParseU64 => match int_prefix(rem, false, 0, u64::MAX as u128) { Some((v, n)) => ok(v, lo + n, hi), None => err("ParseInteger") },
        Op::ParseI128 => match int_prefix(rem, true, i128::MIN, i128::MAX as u128) { Some((v, n)) => ok(v, lo + n, hi), None => err("ParseInteger") },
        Op::ParseBool => { if rem.starts_with("true") { ok("true".into(), lo + 4, hi) } else if rem.starts_with("false") { ok("false".into(), lo + 5, hi) } else { err("ParseBool") } }
    }
}

/// what the corresponding *free konst function* computes from the pre-remainder (C14's reference), as (lo,hi) inside `rem`
fn free_fn(rem: &str, op: &Op) -> Option<Option<(Loc, usize)>> {
    let l = |x: &str| Some((loc_str(rem, x), x.len()));
    Some(match op {
        Op::Trim => l(kst::trim(rem)),
        Op::TrimStart => l(kst::trim_start(rem)),
        Op::TrimEnd => l(kst::trim_end(rem)),
        Op::TrimMatches(p) => l(with_pat!(p, |x| kst::trim_matches(rem, x))),
        Op::TrimStartMatches(p) => l(with_pat!(p, |x| kst::trim_start_matches(rem, x))),
        Op::TrimEndMatches(p) => l(with_pat!(p, |x| kst::trim_end_matches(rem, x))),
        Op::StripPrefix(p) => with_pat!(p, |x| kst::strip_prefix(rem, x)).and_then(l),
        Op::StripSuffix(p) => with_pat!(p, |x| kst::strip_suffix(rem, x)).and_then(l),
        Op::FindSkip(p) => with_pat!(p, |x| kst::find_skip(rem, x)).and_then(l),
        Op::RFindSkip(p) => with_pat!(p, |x| kst::rfind_skip(rem, x)).and_then(l),
        _ => return None,
    })
}

pub fn ops() -> Vec<Op> {
    let pats = [Pat::S("a"), Pat::S(","), Pat::S("ñ"), Pat::S("a,"), Pat::S(",,"), Pat::S(" "), Pat::S(""), Pat::C('a'), Pat::C('ñ'), Pat::C(',')];
    let mut v = vec![Op::Trim, Op::TrimStart, Op::TrimEnd];
    for p in &pats {
        v.push(Op::TrimMatches(p.clone()));
        v.push(Op::TrimStartMatches(p.clone()));
        v.push(Op::TrimEndMatches(p.clone()));
        v.push(Op::StripPrefix(p.clone()));
        v.push(Op::StripSuffix(p.clone()));
        v.push(Op::FindSkip(p.clone()));
        v.push(Op::RFindSkip(p.clone()));
        if !p.as_string().is_empty() {
            v.push(Op::Split(p.clone()));
            v.push(Op::RSplit(p.clone()));
            v.push(Op::SplitTerminator(p.clone()));
            v.push(Op::RSplitTerminator(p.clone()));
            v.push(Op::SplitKeep(p.clone()));
        }
    }
    for n in [0usize, 1, 2, 3, 5, 1000, usize::MAX] {
        v.push(Op::Skip(n));
        v.push(Op::SkipBack(n));
    }
    v.extend([Op::ParseU8, Op::ParseI8, Op::ParseU64, Op::ParseI128, Op::ParseBool]);
    v
}

#[derive(Clone, Copy, PartialEq, Eq, Hash, Debug)]
struct Key {
    lo: usize,
    hi: usize,
    flag: bool,
    dir: u8,
}

struct Ex<'a> {
    rep: &'a mut Report,
    input: &'a str,
    base: usize,
    ctor: &'static str,
}

/// the property this process is checking (13 / 14; 0 = keep both): violations carrying the other property's tag are
/// dropped where they arise, so that they cannot crowd the kept (shortest) cases out of the report
static WHICH: std::sync::atomic::AtomicU8 = std::sync::atomic::AtomicU8::new(0);
fn wanted(prop: &str) -> bool {
    match WHICH.load(std::sync::atomic::Ordering::Relaxed) {
        13 => prop == "C13",
        14 => prop == "C14",
        _ => true,
    }
}

impl Ex<'_> {
    fn viol(&mut self, prop: &str, trace: &[usize], what: &str, exp: String, obs: String) {
        if !wanted(prop) {
            return;
        }
        let all = ops();
        let tr: Vec<String> = trace.iter().map(|&i| format!("{:?}", all[i])).collect();
        let replay = format!("{}|{}|{}|{}", hexs(self.input), self.ctor, self.base, trace.iter().map(|i| i.to_string()).collect::<Vec<_>>().join(","));
        self.rep.violation(viol(
            prop,
            what,
            replay,
            format!("Parser::{}({:?}{}) . {}  : {}", self.ctor, self.input, if self.ctor == "new" { String::new() } else { format!(", {}", self.base) }, tr.join(" . "), what),
            exp,
            obs,
        ));
    }

    /// C13 state invariant
    fn invariant(&mut self, p: &Parser<'_>, trace: &[usize]) -> Option<Key> {
        let (so, eo) = (p.start_offset(), p.end_offset());
        let rem = p.remainder();
        let b = self.base;
        let n = self.input.len();
        if so < b || eo < so || eo - b > n {
            self.viol("C13", trace, "offsets out of range", format!("{b} <= start <= end <= {}", b + n), format!("start_offset={so} end_offset={eo} remainder={rem:?}"));
            return None;
        }
        let (lo, hi) = (so - b, eo - b);
        if !self.input.is_char_boundary(lo) || !self.input.is_char_boundary(hi) {
            self.viol("C13", trace, "offsets not on char boundaries of the original", "char boundaries".into(), format!("start_offset={so} end_offset={eo}"));
            return None;
        }
        if rem.len() != hi - lo || (!rem.is_empty() && locate_str(self.input, rem) != Some((lo, hi - lo))) || rem != &self.input[lo..hi] {
            self.viol(
                "C13",
                trace,
                "remainder is not original[start_offset..end_offset]",
                format!("{:?} (= original[{}..{}])", &self.input[lo..hi], lo, hi),
                format!("{rem:?} located at {:?}; start_offset={so} end_offset={eo}", locate_str(self.input, rem)),
            );
            return None;
        }
        // the other position accessors must describe the same remainder
        if p.len() != rem.len() || p.is_empty() != rem.is_empty() {
            self.viol("C13", trace, "len()/is_empty() disagree with the remainder", format!("len {} is_empty {}", rem.len(), rem.is_empty()), format!("len {} is_empty {}", p.len(), p.is_empty()));
            return None;
        }
        if let Err(e) = substr_oracle(self.input, rem, self.rep) {
            self.viol("C13", trace, "remainder fails the sub-string oracle", "sub-string of the original".into(), e);
            return None;
        }
        Some(Key { lo, hi, flag: flag_of(p), dir: p.parse_direction() as u8 })
    }
}

fn kind_name(k: ErrorKind) -> String {
    format!("{k:?}")
}

/// explore all reachable states of one (input, constructor, base)
pub fn explore_input(rep: &mut Report, input: &str, ctor: &'static str, base: usize, only_trace: Option<&[usize]>) {
    let all = ops();
    let mut ex = Ex { rep, input, base, ctor };
    let init = if ctor == "new" { Parser::new(input) } else { Parser::with_start_offset(input, base) };
    let mut seen: HashSet<Key> = HashSet::new();
    // queue holds (parser, trace of op indices from the initial state) -> shortest counterexample traces
    let mut q: VecDeque<(Parser<'_>, Vec<usize>)> = VecDeque::new();
    let Some(k0) = ex.invariant(&init, &[]) else { return };
    // the step model takes the one-shot split flag of the pre-state from the real object; in the initial state it is
    // defined by the protocol (a fresh parser has not yielded its last piece), so it is checked rather than adopted
    if k0.flag {
        ex.viol("C14", &[], "a fresh parser is already marked as having yielded its last split piece", "split/rsplit on a fresh parser yield the first piece".into(), "one-shot split flag set in the initial state".into());
        return;
    }
    seen.insert(k0);
    q.push_back((init, vec![]));
    let mut nstates = 0u64;
    while let Some((p, trace)) = q.pop_front() {
        nstates += 1;
        ex.rep.states += 1;
        let key = ex.invariant(&p, &trace).expect("invariant held when enqueued");
        let pre_rem = p.remainder();
        for (oi, op) in all.iter().enumerate() {
            if let Some(t) = only_trace {
                if t.get(trace.len()) != Some(&oi) {
                    continue;
                }
            }
            ex.rep.transitions += 1;
            ex.rep.evaluations += 1;
            let mut tr2 = trace.clone();
            tr2.push(oi);
            let real = catch(|| apply(p, op));
            let m = model(input, key.lo, key.hi, key.flag, op);
            let real = match real {
                Err(pn) => {
                    ex.viol("C14", &tr2, "operation panicked", format!("{:?}", m.res), format!("panic: {pn}"));
                    // C13 speaks about the parser every operation sequence ends in: an operation that panics where the
                    // reference returns (a parser or an error) leaves no position to describe
                    ex.viol("C13", &tr2, "operation panicked (no parser and no error, so no position is reported)", format!("{:?}", m.res), format!("panic: {pn}"));
                    continue;
                }
                Ok(r) => r,
            };
            ex.rep.outcome(&(oi, real.is_ok(), real.as_ref().ok().map(|x| x.0.clone())));
            match real {
                Err(e) => {
                    // C13: error offset / direction name the end the operation works from
                    let (eoff, edir) = if from_end(op) { (p.end_offset(), ParseDirection::FromEnd) } else { (p.start_offset(), ParseDirection::FromStart) };
                    if e.offset() != eoff || e.error_direction() != edir {
                        ex.viol("C13", &tr2, "error offset/direction", format!("offset {eoff}, {edir:?}"), format!("offset {}, {:?}", e.offset(), e.error_direction()));
                    }
                    // C14: fails exactly when the function finds nothing, with the documented kind
                    match &m.res {
                        Err(k) => {
                            // the statement names the kind only for split / rsplit ("followed by a split-exhausted error")
                            if matches!(op, Op::Split(_) | Op::RSplit(_)) && *k != kind_name(e.kind()) {
                                ex.viol("C14", &tr2, "error kind", k.clone(), kind_name(e.kind()));
                            }
                        }
                        Ok(x) => ex.viol("C14", &tr2, "operation failed although the reference succeeds", format!("Ok{x:?}"), format!("Err({:?})", e.kind())),
                    }
                    // random-walk mode: a failing operation leaves the walker where it was
                    if only_trace.is_some() {
                        q.push_back((p, tr2));
                    }
                }
                Ok((val, np)) => {
                    // C13 invariant on the new state first
                    let Some(nk) = ex.invariant(&np, &tr2) else { continue };
                    match &m.res {
                        Err(k) => {
                            ex.viol("C14", &tr2, "operation succeeded although the reference fails", format!("Err({k})"), format!("Ok(({val}, remainder {:?}))", np.remainder()));
                            continue;
                        }
                        Ok((mv, mlo, mhi)) => {
                            let rem_ok = if *mlo == usize::MAX { nk.lo == nk.hi } else if mlo == mhi { nk.lo == nk.hi && (nk.lo == *mlo) } else { (nk.lo, nk.hi) == (*mlo, *mhi) };
                            if !rem_ok {
                                // attribute: if the remainder string itself is what the reference computes, the *offsets* are wrong (C13), else the operation (C14)
                                let exp_rem = if *mlo == usize::MAX { "" } else { &input[*mlo..*mhi] };
                                let prop = if np.remainder() == exp_rem && (np.remainder().is_empty() || locate_str(input, np.remainder()) == Some((*mlo, *mhi - *mlo))) { "C13" } else { "C14" };
                                ex.viol(prop, &tr2, "post-state (start..end) differs from the reference", format!("original[{mlo}..{mhi}] = {exp_rem:?}"), format!("original[{}..{}] = {:?} (start_offset {}, end_offset {})", nk.lo, nk.hi, np.remainder(), np.start_offset(), np.end_offset()));
                                continue;
                            }
                            if *mv != val {
                                ex.viol("C14", &tr2, "returned value", mv.clone(), val.clone());
                                continue;
                            }
                        }
                    }
                    // C14: remainder equals, by address, what the free function computes from the pre-remainder
                    if let Some(ff) = free_fn(pre_rem, op) {
                        let got = (loc_str(pre_rem, np.remainder()), np.remainder().len());
                        match ff {
                            Some(exp) if exp == got => {}
                            other => ex.viol("C14", &tr2, "remainder differs from the free string function's result", format!("{other:?}"), format!("{got:?}")),
                        }
                    }
                    if seen.insert(nk) || only_trace.is_some() {
                        q.push_back((np, tr2));
                    }
                }
            }
        }
    }
    if nstates > 6 && input.len() > 2 {
        ex.rep.nontrivial(|| format!("Parser::{ctor}({input:?}): {nstates} reachable states x {} operations", all.len()));
    }
    ex.rep.traces += nstates;
}

/// C14 protocol check: repeating one split operation from the initial state
fn protocols(rep: &mut Report, input: &str) {
    for d in [",", "a", "ñ", "a,", ",,", "aa", " "] {
        macro_rules! proto {
            ($name:literal, $exp:expr, $method:ident, $final_kinds:expr) => {{
                let exp: Vec<&str> = $exp;
                let mut p = Parser::new(input);
                let mut got: Vec<String> = Vec::new();
                let mut fin: Option<String> = None;
                for _ in 0..input.len() + 3 {
                    rep.transitions += 1;
                    match catch(|| p.$method(d)) {
                        Err(pn) => { fin = Some(format!("panic: {pn}")); break; }
                        Ok(Ok((piece, np))) => { got.push(piece.to_string()); p = np; }
                        Ok(Err(e)) => { fin = Some(format!("{:?}", e.kind())); break; }
                    }
                }
                rep.states += 1;
                let kinds: &[&str] = $final_kinds;
                let ok = got.iter().map(|s| s.as_str()).collect::<Vec<_>>() == exp && fin.as_deref().map_or(false, |f| kinds.contains(&f));
                if !ok {
                    rep.violation(viol("C14", concat!("protocol:", $name), format!("{}|proto|0|{}", hexs(input), hexs(d)),
                        format!("repeating Parser::new({input:?}).{}({d:?})", $name), format!("pieces {exp:?} then one of {kinds:?}"), format!("pieces {got:?} then {fin:?}")));
                }
            }};
        }
        let split: Vec<&str> = input.split(d).collect();
        let rsplit: Vec<&str> = input.rsplit(d).collect();
        proto!("split", split.clone(), split, &["SplitExhausted"]);
        proto!("rsplit", rsplit.clone(), rsplit, &["SplitExhausted"]);
        proto!("split_terminator", split[..split.len() - 1].to_vec(), split_terminator, &["SplitExhausted", "DelimiterNotFound"]);
        proto!("rsplit_terminator", rsplit[..rsplit.len() - 1].to_vec(), rsplit_terminator, &["SplitExhausted", "DelimiterNotFound"]);
    }
}

pub fn run(which: &str, tier: Tier, rep: &mut Report) -> (String, String) {
    WHICH.store(if which == "C13" { 13 } else { 14 }, std::sync::atomic::Ordering::Relaxed);
    let atoms = [" ", "a", ",", "ñ", "1", "-", "true"];
    let n = tier.pick(3, 4, 1);
    let mut inputs = strings_over(&atoms, n);
    // a few longer inputs with richer structure (whitespace classes, overlapping needles, numbers at type limits)
    for s in ["  a, a ,ñ  ", "\t\n\x0C a\r ", "aaa,aa,a", ",,a,,", "-128,255,256,-129", "truefalse,true", "a,a,a,a,", "ñañ,ñ", "340282366920938463463374607431768211455,-170141183460469231731687303715884105728x",
        // chars at the UTF-8 width / lead-byte boundaries around the cut points (skip / skip_back round to char boundaries)
        "a\u{7FF}\u{800},\u{FFFF}", "\u{FEFF}a,\u{10000}\u{10FFFF} ", " \u{BF}\u{FF}ñ\u{85} "] {
        inputs.push(s.to_string());
    }
    // every continuation byte value 0x80..=0xBF as the last byte of a char next to white space at either end (byte-level
    // white-space tests must not look into multi-byte chars; seed C13-9 masked the high bit)
    for c in '\u{80}'..='\u{BF}' {
        inputs.push(format!(" {c} "));
    }
    // every ASCII control / separator next to real white space (trim_ascii strips exactly \t \n \x0C \r and space)
    for c in ['\x0B', '\x1C', '\x1D', '\x1E', '\x1F', '\x08', '\x0E', '\x7F', '\0'] {
        inputs.push(format!(" {c} a{c}\t"));
        inputs.push(format!("{c} a {c}"));
    }
    for c in ['\u{A0}', '\u{2028}', '\u{3000}', '\u{1680}', '\u{10A0}', '\u{1F3A0}'] {
        inputs.push(format!("{c}\t a{c}"));
    }
    if tier == Tier::Miri {
        inputs = vec![" a,ñ".to_string()];
    }
    let r = par_each(&inputs, n_threads(tier), |s, r| {
        if tier == Tier::Miri {
            explore_input(r, s, "with_start_offset", 5, None);
            return;
        }
        explore_input(r, s, "new", 0, None);
        explore_input(r, s, "with_start_offset", 0, None);
        explore_input(r, s, "with_start_offset", 5, None);
        protocols(r, s);
        r.sample(|| format!("closure of Parser::new / with_start_offset({s:?}, 0|5) under {} operations", ops().len()));
    });
    rep.merge(r);
    if tier != Tier::Miri {
        // protocol family with self-overlapping delimiter (so that search defects are visible at protocol level too)
        let ab = strings_over(&["a", "b"], tier.pick(6, 8, 0));
        rep.merge(par_each(&ab, n_threads(tier), |s, r| {
            protocols_ab(r, s);
        }));
    }
    // ---- labelled sampling supplement: long random walks (not the deciding step)
    if tier != Tier::Miri {
        let seed: u64 = std::env::var("VERIF_SEED").ok().and_then(|s| s.parse().ok()).unwrap_or(1);
        let mut st = seed.wrapping_mul(0x9E37_79B9_7F4A_7C15) | 1;
        let mut sup = Report::default();
        let all = ops();
        let walks = tier.pick(200, 3000, 0);
        for _ in 0..walks {
            let mut s = String::new();
            for _ in 0..40 {
                st ^= st << 13; st ^= st >> 7; st ^= st << 17;
                s.push_str(atoms[(st % atoms.len() as u64) as usize]);
            }
            let trace: Vec<usize> = (0..30).map(|_| { st ^= st << 13; st ^= st >> 7; st ^= st << 17; (st % all.len() as u64) as usize }).collect();
            // a walk is explored as the single path of the graph search (stops at the first failing op)
            explore_input(&mut sup, &s, "new", 0, Some(&trace));
        }
        rep.notes.push(format!("sampling supplement (labelled, seed {seed}): {walks} random walks of up to 30 operations on 40-atom strings: {} transitions, {} violations", sup.transitions, sup.violations_total));
        let kept = sup.violations.len() as u64;
        let total = sup.violations_total;
        for v in sup.violations { rep.violation(v); }
        rep.violations_total += total - kept;
    }
    // keep only the verdicts of the property being run
    let before = rep.violations.len();
    rep.violations.retain(|v| v.engine == which);
    let dropped = before - rep.violations.len();
    rep.notes.push(format!("shared C13/C14 engine: {} violations belonged to the other property's verdict and are reported by its check", dropped));
    rep.violations_total = rep.violations.len() as u64 + if rep.violations.len() >= MAX_VIOLATIONS_KEPT { rep.violations_total.saturating_sub(before as u64) } else { 0 };
    let rule = if which == "C13" {
        "state = (start_offset, end_offset, one-shot split flag, direction) of a Parser reached from Parser::new / with_start_offset; BFS to a fixed point (every operation only shrinks the remainder) => operation sequences of any length over the alphabet; in every state: remainder is, by address, original[start_offset-base .. end_offset-base], both offsets are char boundaries; on every Err: offset = pre-state start (from-start ops) or end (from-end ops) and the direction names that end; non-trivial = inputs with more than 6 reachable states"
    } else {
        "same state graph as C13; on every transition: the post-remainder equals (by address) what string::{strip_*, trim*, trim_*_matches, find_skip, rfind_skip} compute from the pre-remainder and what a std-based reference model (split_once/rsplit_once/find/trim_ascii/prefix-integer/bool) predicts, Ok iff the reference finds something, error kind as documented, returned piece/number equal; plus the split/rsplit/split_terminator/rsplit_terminator protocols from the initial state against str::split/rsplit"
    };
    (
        rule.into(),
        format!("inputs: all strings of <= {n} atoms over {atoms:?} ({}) + 12 structured longer inputs + 88 inputs placing every continuation byte value, 9 ASCII controls / separators and 6 Unicode white-space chars next to ASCII white space; constructors new, with_start_offset(_,0), with_start_offset(_,5); {} operations (patterns a , ñ \"a,\" \",,\" \" \" \"\" 'a' 'ñ' ','; skip/skip_back 0,1,2,3,5,1000,usize::MAX; parse_u8/i8/u64(parse_with!)/i128/bool); protocol family over {{a,b}}<= {} with delimiters aab, aba, ab, aa", inputs.len(), ops().len(), tier.pick(6, 8, 0)),
    )
}

fn protocols_ab(rep: &mut Report, input: &str) {
    for d in ["aab", "aba", "ab", "aa"] {
        let split: Vec<&str> = input.split(d).collect();
        let rsplit: Vec<&str> = input.rsplit(d).collect();
        for (name, exp, back) in [("split", split.clone(), false), ("rsplit", rsplit.clone(), true)] {
            let mut p = Parser::new(input);
            let mut got: Vec<String> = Vec::new();
            let mut fin = None;
            for _ in 0..input.len() + 3 {
                rep.transitions += 1;
                let r = catch(|| if back { p.rsplit(d) } else { p.split(d) });
                match r {
                    Err(pn) => { fin = Some(format!("panic: {pn}")); break; }
                    Ok(Ok((piece, np))) => { got.push(piece.to_string()); p = np; }
                    Ok(Err(e)) => { fin = Some(format!("{:?}", e.kind())); break; }
                }
            }
            rep.states += 1;
            if got.iter().map(|s| s.as_str()).collect::<Vec<_>>() != exp || fin.as_deref() != Some("SplitExhausted") {
                rep.violation(viol("C14", &format!("protocol:{name}"), format!("{}|protoab|0|{}", hexs(input), hexs(d)),
                    format!("repeating Parser::new({input:?}).{name}({d:?})"), format!("pieces {exp:?} then SplitExhausted"), format!("pieces {got:?} then {fin:?}")));
            }
        }
    }
}

pub fn replay(which: &str, case: &str, rep: &mut Report) {
    WHICH.store(if which == "C13" { 13 } else { 14 }, std::sync::atomic::Ordering::Relaxed);
    // hex(input)|ctor|base|trace   or   hex(input)|proto|0|hex(delim)
    let p: Vec<&str> = case.split('|').collect();
    let input = unhexs(p[0]);
    match p[1] {
        "proto" => protocols(rep, &input),
        "protoab" => protocols_ab(rep, &input),
        ctor => {
            let base: usize = p[2].parse().unwrap();
            let trace: Vec<usize> = p.get(3).copied().unwrap_or("").split(',').filter(|s| !s.is_empty()).map(|s| s.parse().unwrap()).collect();
            let ctor: &'static str = if ctor == "new" { "new" } else { "with_start_offset" };
            explore_input(rep, &input, ctor, base, Some(&trace));
        }
    }
    rep.violations.retain(|v| v.engine == which);
    rep.violations_total = rep.violations.len() as u64;
}
