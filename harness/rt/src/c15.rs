//! C15 (+ builder part of C11) — by-value APIs move every element exactly once.
//! E2 tree by re-execution: every operation sequence (up to a depth bound) on ArrayConsumer / ArrayBuilder
//! over a drop-tracking element type with a thread-local ledger; a reference model (a deque / a vec) runs in lock-step.
//! Verdict tags: "C15" = ledger (exactly-once, order, payload), "C11" = builder returns exactly the pushed values /
//! refuses over- and under-filling.
use crate::common::*;
use konst::array::{ArrayBuilder, ArrayConsumer};
use std::cell::RefCell;
use std::collections::BTreeMap;
use std::mem::ManuallyDrop;

thread_local! {
    static LEDGER: RefCell<Ledger> = RefCell::new(Ledger::default());
    /// Some(k): the (k+1)-th call of Tracked::clone from now on panics
    static CLONE_PANIC_AT: std::cell::Cell<Option<u32>> = const { std::cell::Cell::new(None) };
}
#[derive(Default)]
struct Ledger {
    next_id: u32,
    /// id -> number of drops
    drops: BTreeMap<u32, u32>,
    created: Vec<u32>,
    unknown_drops: Vec<u32>,
}
fn ledger_reset() {
    LEDGER.with(|l| *l.borrow_mut() = Ledger { next_id: 1, ..Default::default() });
}

#[derive(Debug, PartialEq, Eq)]
pub struct Tracked {
    /// owns heap memory, so that a duplicated element is a double free for Miri / the allocator as well
    heap: Box<u8>,
    id: u32,
    payload: u64,
    /// guards against bit-garbage being interpreted as a Tracked
    magic: u32,
}
const MAGIC: u32 = 0x7A3C_91E5;
impl Tracked {
    fn new(payload: u64) -> Self {
        LEDGER.with(|l| {
            let mut l = l.borrow_mut();
            let id = l.next_id;
            l.next_id += 1;
            l.created.push(id);
            Tracked { heap: Box::new(7), id, payload, magic: MAGIC }
        })
    }
}
impl Clone for Tracked {
    fn clone(&self) -> Self {
        CLONE_PANIC_AT.with(|c| match c.get() {
            Some(0) => {
                c.set(None);
                panic!("Tracked::clone panics (injected)");
            }
            Some(k) => c.set(Some(k - 1)),
            None => {}
        });
        Tracked::new(self.payload)
    }
}
impl Drop for Tracked {
    fn drop(&mut self) {
        let (id, magic) = (self.id, self.magic);
        let already = LEDGER.with(|l| l.borrow().drops.get(&id).copied().unwrap_or(0) > 0);
        if magic != MAGIC || (already && !cfg!(miri)) {
            // garbage read as an element, or a duplicate being dropped again: natively do not free the "heap" pointer a
            // second time (the ledger reports it at the end of the history); under Miri the double free is left to the interpreter
            let h = std::mem::replace(&mut self.heap, Box::new(0));
            std::mem::forget(h);
        }
        LEDGER.with(|l| {
            let mut l = l.borrow_mut();
            if magic != MAGIC || !l.created.contains(&id) {
                l.unknown_drops.push(id);
            } else {
                *l.drops.entry(id).or_insert(0) += 1;
            }
        });
    }
}

/// after a path: every created id dropped exactly once (complete paths) / at most once (panic paths)
fn ledger_verdict(complete: bool) -> Result<(), String> {
    LEDGER.with(|l| {
        let l = l.borrow();
        if !l.unknown_drops.is_empty() {
            return Err(format!("drop of values that were never created (uninitialised or corrupted memory read as an element): ids {:?}", l.unknown_drops));
        }
        for id in &l.created {
            let d = l.drops.get(id).copied().unwrap_or(0);
            if d > 1 {
                return Err(format!("element #{id} dropped {d} times (duplicated)"));
            }
            if d == 0 && complete {
                return Err(format!("element #{id} leaked on a path that ran to completion (never dropped, never handed out)"));
            }
        }
        Ok(())
    })
}

// ------------------------------------------------------------------ ArrayConsumer

#[derive(Clone, Copy, PartialEq, Debug)]
enum COp {
    Next(u8),
    NextBack(u8),
    Drop(u8),
    AssertEmpty(u8),
    Clone,
    /// clone object 0 while the k-th element's clone panics (the partial clone must clean up after itself)
    ClonePanic(u8),
    /// start object 0 from ArrayConsumer::empty() instead of new(array) — only as first op
    StartEmpty,
}

struct CModel {
    /// live (id, payload) of each object; None = consumed/dropped
    objs: [Option<std::collections::VecDeque<(u32, u64)>>; 2],
}

/// the property this process is checking (11 / 15; 0 = keep both): violations tagged for the other property are dropped
/// where they arise, so that they cannot crowd the kept (shortest) cases out of the report
static WHICH: std::sync::atomic::AtomicU8 = std::sync::atomic::AtomicU8::new(0);

fn fail(rep: &mut Report, tag: &str, kind: &str, n: usize, path: &str, what: &str, exp: String, obs: String) {
    // "C11+C15": the observation contradicts both statements (the builder's visible contents and the move ledger)
    for t in tag.split('+') {
        match WHICH.load(std::sync::atomic::Ordering::Relaxed) {
            11 if t != "C11" => continue,
            15 if t != "C15" => continue,
            _ => {}
        }
        rep.violation(viol(t, what, format!("{kind}|{n}|{path}"), format!("{kind}<Tracked, {n}> after [{path}]: {what}"), exp.clone(), obs.clone()));
    }
}

fn path_str<T: std::fmt::Debug>(p: &[T]) -> String {
    p.iter().map(|o| format!("{o:?}")).collect::<Vec<_>>().join(",")
}

/// execute one consumer path from scratch; returns false if the path is not enabled in the model (pruned)
fn run_consumer<const N: usize>(rep: &mut Report, path: &[COp]) -> bool {
    ledger_reset();
    let mut handed: Vec<Tracked> = Vec::new();
    let pstr = path_str(path);
    let mut violation: Option<(&'static str, String, String, String)> = None;
    let mut panicked = false;
    let mut enabled = true;
    {
        let start_empty = path.first() == Some(&COp::StartEmpty);
        let arr: [Tracked; N] = std::array::from_fn(|i| Tracked::new(100 + i as u64));
        let ids: Vec<(u32, u64)> = arr.iter().map(|t| (t.id, t.payload)).collect();
        let mut model = CModel { objs: [None, None] };
        let mut objs: [Option<ArrayConsumer<Tracked, N>>; 2] = [None, None];
        let mut poisoned = false;
        if start_empty {
            drop(arr);
            objs[0] = Some(ArrayConsumer::empty());
            model.objs[0] = Some(Default::default());
        } else {
            objs[0] = Some(ArrayConsumer::new(arr));
            model.objs[0] = Some(ids.iter().cloned().collect());
        }
        'steps: for (si, op) in path.iter().enumerate() {
            if *op == COp::StartEmpty {
                if si != 0 {
                    enabled = false;
                    break;
                }
                continue;
            }
            rep.transitions += 1;
            let which = match op {
                COp::Next(w) | COp::NextBack(w) | COp::Drop(w) | COp::AssertEmpty(w) => *w as usize,
                COp::Clone | COp::ClonePanic(_) => 0,
                COp::StartEmpty => 0,
            };
            if objs[which].is_none() || (matches!(op, COp::Clone | COp::ClonePanic(_)) && objs[1].is_some()) {
                enabled = false;
                break;
            }
            match op {
                COp::Next(_) | COp::NextBack(_) => {
                    let front = matches!(op, COp::Next(_));
                    let exp = { let m = model.objs[which].as_mut().unwrap(); if front { m.pop_front() } else { m.pop_back() } };
                    let o = objs[which].as_mut().unwrap();
                    let got = catch(|| if front { o.next() } else { o.next_back() });
                    match got {
                        Err(p) => { violation = Some(("C15", "next/next_back panicked".into(), format!("{exp:?}"), format!("panic: {p}"))); panicked = true; break 'steps; }
                        Ok(g) => {
                            let g: Option<Tracked> = g.map(ManuallyDrop::into_inner);
                            let gi = g.as_ref().map(|t| (t.id, t.payload));
                            if let Some(t) = g { handed.push(t); }
                            if gi != exp {
                                violation = Some(("C15", "element handed out".into(), format!("{exp:?} (id, payload)"), format!("{gi:?}")));
                                break 'steps;
                            }
                        }
                    }
                }
                COp::Drop(_) => {
                    let o = objs[which].take();
                    model.objs[which] = None;
                    if let Err(p) = catch(move || drop(o)) {
                        violation = Some(("C15", "drop panicked".into(), "no panic".into(), format!("panic: {p}")));
                        poisoned = true;
                        break 'steps;
                    }
                }
                COp::AssertEmpty(_) => {
                    let o = objs[which].take().unwrap();
                    let must_panic = !model.objs[which].as_ref().unwrap().is_empty();
                    model.objs[which] = None;
                    let r = catch(move || o.assert_is_empty());
                    if r.is_err() != must_panic {
                        violation = Some(("C15", "assert_is_empty".into(), format!("panic = {must_panic}"), format!("panic = {}", r.is_err())));
                        break 'steps;
                    }
                }
                COp::Clone => {
                    let c = objs[0].as_ref().unwrap().clone();
                    // the clone owns fresh clones (new ids) of exactly the live elements, same payloads, same order
                    let live: Vec<u64> = model.objs[0].as_ref().unwrap().iter().map(|x| x.1).collect();
                    let got: Vec<u64> = c.as_slice().iter().map(|t| t.payload).collect();
                    if live != got {
                        violation = Some(("C15", "clone contents".into(), format!("{live:?}"), format!("{got:?}")));
                        objs[1] = Some(c);
                        break 'steps;
                    }
                    model.objs[1] = Some(c.as_slice().iter().map(|t| (t.id, t.payload)).collect());
                    objs[1] = Some(c);
                }
                COp::ClonePanic(k) => {
                    let live = model.objs[0].as_ref().unwrap().len();
                    if *k as usize >= live {
                        enabled = false; // nothing would panic: identical to Clone
                        break;
                    }
                    CLONE_PANIC_AT.with(|c| c.set(Some(*k as u32)));
                    let src = objs[0].as_ref().unwrap();
                    let r = catch(|| src.clone());
                    CLONE_PANIC_AT.with(|c| c.set(None));
                    if let Ok(c) = r {
                        violation = Some(("C15", "clone with a panicking element clone".into(), "panic propagates".into(), "clone returned".into()));
                        drop(c);
                        break 'steps;
                    }
                    // the original is untouched (checked below); the partial clone must have dropped exactly what it created (ledger)
                }
                COp::StartEmpty => {}
            }
            // after every step: as_slice of every live object = model; bump payloads through as_mut_slice
            for w in 0..2 {
                if let (Some(o), Some(m)) = (objs[w].as_mut(), model.objs[w].as_mut()) {
                    let got: Vec<(u32, u64)> = match catch(|| o.as_slice().iter().map(|t| (t.id, t.payload)).collect()) {
                        Ok(g) => g,
                        Err(p) => {
                            violation = Some(("C15", "as_slice panicked".into(), "the not-yet-taken elements".into(), format!("panic: {p}")));
                            // the object is in a state its own Drop may not survive: leak everything instead of unwinding through it
                            poisoned = true;
                            break 'steps;
                        }
                    };
                    let exp: Vec<(u32, u64)> = m.iter().cloned().collect();
                    if got != exp {
                        violation = Some(("C15", "as_slice shows the not-yet-taken elements".into(), format!("{exp:?}"), format!("{got:?}")));
                        break 'steps;
                    }
                    for t in o.as_mut_slice() { t.payload += 1000; }
                    for e in m.iter_mut() { e.1 += 1000; }
                }
            }
        }
        // scope end: remaining objects are dropped here (unless one of them is known to be corrupted)
        if poisoned {
            std::mem::forget(objs);
            panicked = true;
        } else if let Err(p) = catch(move || drop(objs)) {
            if violation.is_none() {
                violation = Some(("C15", "drop at scope end panicked".into(), "no panic".into(), format!("panic: {p}")));
            }
            panicked = true;
        }
    }
    drop(handed);
    if !enabled {
        return false;
    }
    rep.states += 1;
    rep.traces += 1;
    if let Some((tag, what, exp, obs)) = violation {
        fail(rep, tag, "ArrayConsumer", N, &pstr, &what, exp, obs);
    } else if let Err(e) = ledger_verdict(!panicked) {
        fail(rep, "C15", "ArrayConsumer", N, &pstr, "drop/move ledger", "every element handed out or dropped exactly once".into(), e);
    }
    true
}

fn consumer_ops() -> Vec<COp> {
    vec![COp::Next(0), COp::NextBack(0), COp::Drop(0), COp::AssertEmpty(0), COp::Clone, COp::ClonePanic(0), COp::ClonePanic(1), COp::ClonePanic(2), COp::Next(1), COp::NextBack(1), COp::Drop(1), COp::AssertEmpty(1)]
}

fn dfs_consumer<const N: usize>(rep: &mut Report, path: &mut Vec<COp>, depth: usize) {
    // a panic that escapes the per-operation catch() (e.g. inside as_slice or a Drop impl) is an unexpected panic of konst
    match catch(|| run_consumer::<N>(rep, path)) {
        Ok(true) => {}
        Ok(false) => return,
        Err(p) => {
            let ps = path_str(path);
            fail(rep, "C15", "ArrayConsumer", N, &ps, "unexpected panic (as_slice / as_mut_slice / clone / drop)", "no panic".into(), format!("panic: {p}"));
            return;
        }
    }
    if path.len() >= depth {
        return;
    }
    for op in consumer_ops() {
        path.push(op);
        dfs_consumer::<N>(rep, path, depth);
        path.pop();
    }
}

// ------------------------------------------------------------------ ArrayBuilder

#[derive(Clone, Copy, PartialEq, Debug)]
enum BOp {
    Push(u8),
    Build(u8),
    Drop(u8),
    Clone,
    ClonePanic(u8),
    /// `objs[dst].clone_from(&objs[1 - dst])` (both objects live): dst ends up with clones of the source's prefix, its
    /// previous elements are dropped
    CloneFrom(u8),
}

fn run_builder<const N: usize>(rep: &mut Report, path: &[BOp]) -> bool {
    ledger_reset();
    let pstr = path_str(path);
    let mut violation: Option<(&'static str, String, String, String)> = None;
    let mut panicked = false;
    let mut enabled = true;
    let mut built: Vec<[Tracked; N]> = Vec::new();
    {
        let mut objs: [Option<ArrayBuilder<Tracked, N>>; 2] = [Some(ArrayBuilder::new()), None];
        let mut model: [Option<Vec<(u32, u64)>>; 2] = [Some(vec![]), None];
        let mut counter = 0u64;
        'steps: for op in path {
            rep.transitions += 1;
            let which = match op { BOp::Push(w) | BOp::Build(w) | BOp::Drop(w) | BOp::CloneFrom(w) => *w as usize, BOp::Clone | BOp::ClonePanic(_) => 0 };
            if objs[which].is_none() || (matches!(op, BOp::Clone | BOp::ClonePanic(_)) && objs[1].is_some()) || (matches!(op, BOp::CloneFrom(_)) && objs[1 - which].is_none()) {
                enabled = false;
                break;
            }
            match op {
                BOp::Push(_) => {
                    counter += 1;
                    let v = Tracked::new(500 + counter);
                    let idp = (v.id, v.payload);
                    let full = model[which].as_ref().unwrap().len() == N;
                    let o = objs[which].as_mut().unwrap();
                    let r = catch(move || o.push(v));
                    if r.is_err() != full {
                        violation = Some(("C11", "push on a full builder must panic, otherwise succeed".into(), format!("panic = {full}"), format!("panic = {}", r.is_err())));
                        panicked |= r.is_err();
                        break 'steps;
                    }
                    if r.is_err() {
                        // a refused push: the builder is still usable and unchanged; the refused value was dropped by unwinding
                        panicked = false;
                    } else {
                        model[which].as_mut().unwrap().push(idp);
                    }
                }
                BOp::Build(_) => {
                    let o = objs[which].take().unwrap();
                    let m = model[which].take().unwrap();
                    let r = catch(move || o.build());
                    match r {
                        Err(_) if m.len() < N => {} // under-filled: must panic; the pushed prefix is dropped by unwinding
                        Err(p) => { violation = Some(("C11", "build of a full builder".into(), format!("{m:?}"), format!("panic: {p}"))); panicked = true; break 'steps; }
                        Ok(arr) => {
                            let got: Vec<(u32, u64)> = arr.iter().map(|t| (t.id, t.payload)).collect();
                            built.push(arr);
                            if m.len() < N {
                                violation = Some(("C11", "build of an under-filled builder must panic (array with an unwritten element returned)".into(), format!("panic ({} of {N} pushed)", m.len()), format!("returned {got:?}")));
                                std::mem::forget(built.pop());
                                break 'steps;
                            }
                            if got != m {
                                violation = Some(("C11", "build returns exactly the pushed values in push order".into(), format!("{m:?}"), format!("{got:?}")));
                                break 'steps;
                            }
                        }
                    }
                }
                BOp::Drop(_) => { drop(objs[which].take()); model[which] = None; }
                BOp::Clone => {
                    let c = objs[0].as_ref().unwrap().clone();
                    let live: Vec<u64> = model[0].as_ref().unwrap().iter().map(|x| x.1).collect();
                    let got: Vec<u64> = c.as_slice().iter().map(|t| t.payload).collect();
                    if live != got || c.len() != live.len() {
                        violation = Some(("C15", "clone contents".into(), format!("{live:?}"), format!("{got:?}")));
                        objs[1] = Some(c);
                        break 'steps;
                    }
                    model[1] = Some(c.as_slice().iter().map(|t| (t.id, t.payload)).collect());
                    objs[1] = Some(c);
                }
                BOp::CloneFrom(_) => {
                    let src_payloads: Vec<u64> = model[1 - which].as_ref().unwrap().iter().map(|x| x.1).collect();
                    let (a, b) = objs.split_at_mut(1);
                    let (dst, src) = if which == 0 { (a[0].as_mut().unwrap(), b[0].as_ref().unwrap()) } else { (b[0].as_mut().unwrap(), a[0].as_ref().unwrap()) };
                    dst.clone_from(src);
                    let got: Vec<u64> = dst.as_slice().iter().map(|t| t.payload).collect();
                    if got != src_payloads || dst.len() != src_payloads.len() {
                        violation = Some(("C11+C15", "clone_from contents".into(), format!("{src_payloads:?}"), format!("{got:?} (len {})", dst.len())));
                        break 'steps;
                    }
                    model[which] = Some(dst.as_slice().iter().map(|t| (t.id, t.payload)).collect());
                }
                BOp::ClonePanic(k) => {
                    let live = model[0].as_ref().unwrap().len();
                    if *k as usize >= live {
                        enabled = false;
                        break;
                    }
                    CLONE_PANIC_AT.with(|c| c.set(Some(*k as u32)));
                    let src = objs[0].as_ref().unwrap();
                    let r = catch(|| src.clone());
                    CLONE_PANIC_AT.with(|c| c.set(None));
                    if let Ok(c) = r {
                        violation = Some(("C15", "clone with a panicking element clone".into(), "panic propagates".into(), "clone returned".into()));
                        drop(c);
                        break 'steps;
                    }
                }
            }
            for w in 0..2 {
                if let (Some(o), Some(m)) = (objs[w].as_mut(), model[w].as_mut()) {
                    let got: Vec<(u32, u64)> = o.as_slice().iter().map(|t| (t.id, t.payload)).collect();
                    if got != *m || o.len() != m.len() || o.is_full() != (m.len() == N) {
                        violation = Some(("C11", "as_slice/len/is_full show exactly the pushed prefix".into(), format!("{m:?} len {} full {}", m.len(), m.len() == N), format!("{got:?} len {} full {}", o.len(), o.is_full())));
                        break 'steps;
                    }
                    for t in o.as_mut_slice() { t.payload += 1000; }
                    for e in m.iter_mut() { e.1 += 1000; }
                }
            }
        }
    }
    drop(built);
    if !enabled {
        return false;
    }
    rep.states += 1;
    rep.traces += 1;
    if let Some((tag, what, exp, obs)) = violation {
        fail(rep, tag, "ArrayBuilder", N, &pstr, &what, exp, obs);
    } else if let Err(e) = ledger_verdict(!panicked) {
        fail(rep, "C15", "ArrayBuilder", N, &pstr, "drop/move ledger", "every pushed value returned by build or dropped exactly once".into(), e);
    }
    true
}

fn builder_ops() -> Vec<BOp> {
    vec![BOp::Push(0), BOp::Build(0), BOp::Drop(0), BOp::Clone, BOp::ClonePanic(0), BOp::ClonePanic(1), BOp::Push(1), BOp::Build(1), BOp::Drop(1), BOp::CloneFrom(0), BOp::CloneFrom(1)]
}

fn dfs_builder<const N: usize>(rep: &mut Report, path: &mut Vec<BOp>, depth: usize) {
    match catch(|| run_builder::<N>(rep, path)) {
        Ok(true) => {}
        Ok(false) => return,
        Err(p) => {
            let ps = path_str(path);
            fail(rep, "C11", "ArrayBuilder", N, &ps, "unexpected panic (as_slice / as_mut_slice / clone / drop)", "no panic".into(), format!("panic: {p}"));
            return;
        }
    }
    if path.len() >= depth {
        return;
    }
    for op in builder_ops() {
        path.push(op);
        dfs_builder::<N>(rep, path, depth);
        path.pop();
    }
}

// ------------------------------------------------------------------ array::map_! with a panicking closure, from_fn_!

fn map_by_value<const N: usize>(rep: &mut Report) {
    // k = N means "no panic"
    for k in 0..=N {
        ledger_reset();
        rep.transitions += 1;
        rep.states += 1;
        let arr: [Tracked; N] = std::array::from_fn(|i| Tracked::new(100 + i as u64));
        let exp: Vec<u64> = arr.iter().map(|t| t.payload * 2).collect();
        let mut idx = 0usize;
        let r = catch(|| {
            konst::array::map_!(arr, |t: Tracked| {
                if idx == k { panic!("closure panics at element {k}") }
                idx += 1;
                Tracked::new(t.payload * 2)
            })
        });
        let pstr = format!("panic_at={k}");
        match r {
            Ok(out) => {
                let got: Vec<u64> = out.iter().map(|t| t.payload).collect();
                drop(out);
                if k < N || got != exp {
                    fail(rep, "C15", "array::map_!", N, &pstr, "result", format!("{exp:?}"), format!("{got:?}"));
                    continue;
                }
                if let Err(e) = ledger_verdict(true) { fail(rep, "C15", "array::map_!", N, &pstr, "drop/move ledger", "every input element moved into the closure exactly once, every output element returned".into(), e); }
            }
            Err(_) => {
                if k == N { fail(rep, "C15", "array::map_!", N, &pstr, "result", format!("{exp:?}"), "panic".into()); continue; }
                if let Err(e) = ledger_verdict(false) { fail(rep, "C15", "array::map_!", N, &pstr, "drop/move ledger (panic path: at most once)".into(), "no element dropped twice".into(), e); }
            }
        }
        rep.traces += 1;
    }
    // non-local exits out of the mapper at element k (round 15: a consumer kept in ManuallyDrop leaked the unmapped tail):
    // `return` out of the enclosing function, `?`, and a labelled break - all of them paths that run to completion
    fn exit_return<const N: usize>(arr: [Tracked; N], k: usize) -> Option<[Tracked; N]> {
        let mut idx = 0usize;
        Some(konst::array::map_!(arr, |t: Tracked| {
            if idx == k { return None; }
            idx += 1;
            Tracked::new(t.payload * 2)
        }))
    }
    fn exit_question<const N: usize>(arr: [Tracked; N], k: usize) -> Result<[Tracked; N], usize> {
        let mut idx = 0usize;
        Ok(konst::array::map_!(arr, |t: Tracked| {
            let t = if idx == k { Err(idx) } else { Ok(t) }?;
            idx += 1;
            Tracked::new(t.payload * 2)
        }))
    }
    fn exit_break<const N: usize>(arr: [Tracked; N], k: usize) -> Option<[Tracked; N]> {
        let mut idx = 0usize;
        'outer: loop {
            let out = konst::array::map_!(arr, |t: Tracked| {
                if idx == k { break 'outer None; }
                idx += 1;
                Tracked::new(t.payload * 2)
            });
            break Some(out);
        }
    }
    for (kind, name) in [(0u8, "return"), (1, "?"), (2, "labelled break")] {
        for k in 0..=N {
            ledger_reset();
            rep.transitions += 1;
            rep.states += 1;
            let arr: [Tracked; N] = std::array::from_fn(|i| Tracked::new(100 + i as u64));
            let exp: Vec<u64> = arr.iter().map(|t| t.payload * 2).collect();
            let r = catch(move || match kind { 0 => exit_return(arr, k), 1 => exit_question(arr, k).ok(), _ => exit_break(arr, k) });
            let pstr = format!("mapper leaves through `{name}` at element {k}");
            match r {
                Ok(out) => {
                    let got: Option<Vec<u64>> = out.as_ref().map(|o| o.iter().map(|t| t.payload).collect());
                    drop(out);
                    let want = if k == N { Some(exp.clone()) } else { None };
                    if got != want { fail(rep, "C15", "array::map_!", N, &pstr, "result", format!("{want:?}"), format!("{got:?}")); continue; }
                    if let Err(e) = ledger_verdict(true) { fail(rep, "C15", "array::map_!", N, &pstr, "drop/move ledger", "every input and every already mapped element dropped exactly once (the path runs to completion)".into(), e); }
                }
                Err(p) => fail(rep, "C15", "array::map_!", N, &pstr, "result", "no panic".into(), format!("panic: {p}")),
            }
            rep.traces += 1;
        }
    }
    // from_fn_! by value
    ledger_reset();
    rep.transitions += 1;
    // inside catch(): code expanded from the macro panics at a location in this file
    let out: [Tracked; N] = match catch(|| konst::array::from_fn_!(|i| Tracked::new(7 * i as u64))) {
        Ok(a) => a,
        Err(p) => {
            fail(rep, "C11", "array::from_fn_!", N, "", "result", "an array".into(), format!("panic: {p}"));
            return;
        }
    };
    let got: Vec<u64> = out.iter().map(|t| t.payload).collect();
    let exp: Vec<u64> = (0..N).map(|i| 7 * i as u64).collect();
    drop(out);
    if got != exp { fail(rep, "C11", "array::from_fn_!", N, "", "result", format!("{exp:?}"), format!("{got:?}")); }
    else if let Err(e) = ledger_verdict(true) { fail(rep, "C15", "array::from_fn_!", N, "", "drop/move ledger", "exactly once".into(), e); }
}

fn copy_builder(rep: &mut Report) {
    if let Err(p) = catch(|| copy_builder_inner(rep)) {
        fail(rep, "C11", "ArrayBuilder::copy / ArrayConsumer::copy", 3, "push,copy,push..", "copies are independent", "no panic".into(), format!("panic: {p}"));
    }
}

fn copy_builder_inner(rep: &mut Report) {
    // Copy element type: copy() gives an independent builder with the same pushed prefix
    rep.transitions += 1;
    let mut a: ArrayBuilder<u8, 3> = ArrayBuilder::new();
    a.push(1);
    let mut b = a.copy();
    a.push(2);
    b.push(9);
    b.push(8);
    a.push(3);
    let (x, y) = (a.build(), b.build());
    if x != [1, 2, 3] || y != [1, 9, 8] {
        fail(rep, "C11", "ArrayBuilder::copy", 3, "push,copy,push..", "copies are independent", "[1,2,3] / [1,9,8]".into(), format!("{x:?} / {y:?}"));
    }
    let mut c = ArrayConsumer::new([1u8, 2, 3]);
    let _ = c.next();
    let mut d = c.copy();
    let (p, q) = (c.next().map(ManuallyDrop::into_inner), d.next_back().map(ManuallyDrop::into_inner));
    let (r, s) = (d.next().map(ManuallyDrop::into_inner), c.next_back().map(ManuallyDrop::into_inner));
    if (p, q, r, s) != (Some(2), Some(3), Some(2), Some(3)) {
        fail(rep, "C15", "ArrayConsumer::copy", 3, "next,copy,..", "copies are independent", "2,3,2,3".into(), format!("{:?}", (p, q, r, s)));
    }
}

macro_rules! for_n {
    ($f:ident, $rep:expr, $n:expr $(, $arg:expr)*) => {
        match $n { 0 => $f::<0>($rep $(, $arg)*), 1 => $f::<1>($rep $(, $arg)*), 2 => $f::<2>($rep $(, $arg)*), 3 => $f::<3>($rep $(, $arg)*), 4 => $f::<4>($rep $(, $arg)*), 5 => $f::<5>($rep $(, $arg)*), _ => unreachable!() }
    };
}

pub fn run(which: &str, tier: Tier, rep: &mut Report) -> (String, String) {
    WHICH.store(if which == "C11" { 11 } else { 15 }, std::sync::atomic::Ordering::Relaxed);
    let maxn = tier.pick(4, 5, if miri_deep() { 3 } else { 2 });
    let extra = tier.pick(4, 5, if miri_deep() { 2 } else { 0 });
    // jobs: (kind, N, first op index) to spread the top-level branches over threads
    let mut jobs: Vec<(u8, usize, usize)> = Vec::new();
    for n in 0..=maxn {
        for first in 0..=consumer_ops().len() { jobs.push((0, n, first)); } // last index = StartEmpty
        for first in 0..builder_ops().len() { jobs.push((1, n, first)); }
        jobs.push((2, n, 0));
    }
    jobs.sort_by_key(|j| std::cmp::Reverse(j.1));
    let r = par_each(&jobs, n_threads(tier), |&(kind, n, first), r| {
        let depth = (n + extra).min(tier.pick(8, 9, 4));
        match kind {
            0 => {
                let ops = consumer_ops();
                let mut path = vec![if first == ops.len() { COp::StartEmpty } else { ops[first] }];
                if first == 0 { let mut e = vec![]; for_n!(dfs_consumer, r, n, &mut e, 0); }
                for_n!(dfs_consumer, r, n, &mut path, depth);
            }
            1 => {
                let ops = builder_ops();
                let mut path = vec![ops[first]];
                if first == 0 { let mut e = vec![]; for_n!(dfs_builder, r, n, &mut e, 0); }
                for_n!(dfs_builder, r, n, &mut path, depth);
            }
            _ => { for_n!(map_by_value, r, n); }
        }
    });
    rep.merge(r);
    copy_builder(rep);
    // the zero-sized ledger only produces C15 verdicts
    let zst_bounds = if which == "C15" { crate::c15z::run(tier, rep) } else { String::new() };
    rep.sample(|| "ArrayConsumer<Tracked,2>: [Next(0),Clone,NextBack(1),Drop(0),AssertEmpty(1)]".into());
    rep.sample(|| "ArrayBuilder<Tracked,2>: [Push(0),Clone,Push(1),Build(1),Build(0)] (build of the under-filled original must panic)".into());
    rep.sample(|| "array::map_!([Tracked;3], closure panicking at element 1)".into());
    rep.nontrivial = rep.traces / 2;
    let before = rep.violations.len();
    rep.violations.retain(|v| v.engine == which);
    rep.notes.push(format!("shared C11/C15 ledger engine: {} kept violations carried the other property's tag", before - rep.violations.len()));
    rep.violations_total = rep.violations.len() as u64;
    (
        "state = an operation history executed from scratch (stateless exploration by re-execution) on ArrayConsumer<Tracked,N> (ops next, next_back, drop, assert_is_empty, clone -> second live object, start from empty()) / ArrayBuilder<Tracked,N> (push, build, drop, clone, clone_from between the two live objects); after every step as_slice/len/is_full are compared with a deque/vec model and every live element is modified through as_mut_slice; at the end of every history the thread-local ledger must show each element handed out or dropped exactly once (at most once on panic paths), in original order with the expected payload; map_!/from_fn_! with a closure panicking at each element k, map_! with a mapper leaving through return / ? / labelled break at each element k (complete paths: exactly once); distinct_nontrivial counted conservatively as half of the complete histories".into(),
        format!("N in 0..={maxn}, history depth min(N+{extra}, {}), at most 2 live objects; every enabled sequence; {zst_bounds}", tier.pick(8, 9, 4)),
    )
}

pub fn replay(which: &str, case: &str, rep: &mut Report) {
    WHICH.store(if which == "C11" { 11 } else { 15 }, std::sync::atomic::Ordering::Relaxed);
    // kind|N|path : re-run the whole family for that N at the recorded depth is cheap and exact: filter by replay string
    if case.starts_with("zst") {
        return crate::c15z::replay(case, rep);
    }
    let p: Vec<&str> = case.split('|').collect();
    let n: usize = p[1].parse().unwrap();
    let depth = p.get(2).map_or(0, |s| s.split(',').filter(|x| !x.is_empty()).count());
    match p[0] {
        "ArrayConsumer" => {
            let mut path = if p.get(2).map_or(false, |s| s.starts_with("StartEmpty")) { vec![COp::StartEmpty] } else { vec![] };
            for_n!(dfs_consumer, rep, n, &mut path, depth);
        }
        "ArrayBuilder" => { let mut path = vec![]; for_n!(dfs_builder, rep, n, &mut path, depth); }
        _ => { for_n!(map_by_value, rep, n); copy_builder(rep); }
    }
    rep.violations.retain(|v| v.replay == case && v.engine == which);
    rep.violations_total = rep.violations.len() as u64;
}
