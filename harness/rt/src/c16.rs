//! C16 — comparison functions and macros = std `==` / `Ord::cmp` (E1: all pairs / triples over small alphabets).
use crate::common::*;
use konst::{assertc_eq, assertc_ne, const_cmp, const_cmp_for, const_eq, const_eq_for};
use std::cmp::Ordering;
use std::num::*;

struct Ctx<'a> {
    rep: &'a mut Report,
    ty: &'static str,
    l: usize,
    i: usize,
    j: usize,
    desc: String,
}
/// evaluates the konst side inside catch(): a panic there (also one raised by macro-expanded code, whose location is
/// this file) is an observed outcome, not a harness crash
macro_rules! ck {
    ($c:expr, $func:expr, $exp:expr, $obs:expr) => {{
        let exp = $exp;
        match catch(|| $obs) {
            Ok(obs) => $c.ck($func, exp, obs),
            Err(p) => $c.panicked($func, format!("{exp:?}"), p),
        }
    }};
}

impl Ctx<'_> {
    fn panicked(&mut self, func: &str, exp: String, msg: String) {
        self.rep.transitions += 1;
        self.rep.evaluations += 1;
        let replay = format!("{}|{}|{}|{}", self.ty, self.l, self.i, self.j);
        self.rep.violation(viol("cmp", func, replay, format!("{}({})", func, self.desc), exp, format!("panic: {msg}")));
    }
    fn ck<X: PartialEq + std::fmt::Debug + std::hash::Hash>(&mut self, func: &str, exp: X, obs: X) {
        self.rep.transitions += 1;
        self.rep.evaluations += 1;
        self.rep.outcome(&(func, &obs));
        if exp != obs {
            let replay = format!("{}|{}|{}|{}", self.ty, self.l, self.i, self.j);
            self.rep.violation(viol("cmp", func, replay, format!("{}({})", func, self.desc), format!("{exp:?}"), format!("{obs:?}")));
        }
    }
}

fn all_seqs<T: Clone>(vals: &[T], max: usize) -> Vec<Vec<T>> {
    let mut out: Vec<Vec<T>> = vec![vec![]];
    let mut level: Vec<Vec<T>> = vec![vec![]];
    for _ in 0..max {
        let mut next = Vec::new();
        for s in &level {
            for v in vals {
                let mut t = s.clone();
                t.push(v.clone());
                next.push(t);
            }
        }
        out.extend(next.iter().cloned());
        level = next;
    }
    out
}

fn panics(f: impl FnOnce()) -> bool {
    catch(f).is_err()
}

/// Everything for one primitive element type: slices, options of slices, scalars, options of scalars.
macro_rules! prim_type {
    ($fname:ident, $T:ty, $name:expr, [$($v:expr),*], scalars = [$($sv:expr),*],
     slice = ($eqs:path, $cmps:path, $eqos:path, $cmpos:path), scalar = ($cmpv:path, $eqov:path, $cmpov:path)) => {
        fn $fname(rep: &mut Report, l: usize, only: Option<(usize, usize)>) {
            let vals: Vec<$T> = vec![$($v),*];
            let slices = all_seqs(&vals, l);
            fn by_ref_eq(a: &$T, b: &$T) -> bool { a == b }
            fn by_ref_cmp(a: &$T, b: &$T) -> Ordering { a.cmp(b) }
            for (i, xv) in slices.iter().enumerate() {
                for (j, yv) in slices.iter().enumerate() {
                    if let Some(o) = only { if o != (i, j) { continue; } }
                    let (x, y): (&[$T], &[$T]) = (xv, yv);
                    let mut c = Ctx { rep, ty: $name, l, i, j, desc: format!("{x:?}, {y:?}") };
                    c.rep.states += 1;
                    let (e, o) = (x == y, x.cmp(y));
                    ck!(c, stringify!($eqs), e, $eqs(x, y));
                    ck!(c, stringify!($cmps), o, $cmps(x, y));
                    ck!(c, "const_eq!(slices)", e, const_eq!(x, y));
                    ck!(c, "const_cmp!(slices)", o, const_cmp!(x, y));
                    ck!(c, "CmpWrapper::const_eq", e, konst::cmp::CmpWrapper(x).const_eq(&y));
                    ck!(c, "CmpWrapper::const_cmp", o, konst::cmp::CmpWrapper(x).const_cmp(&y));
                    ck!(c, "const_eq_for!(slice; default)", e, const_eq_for!(slice; x, y));
                    ck!(c, "const_cmp_for!(slice; default)", o, const_cmp_for!(slice; x, y));
                    ck!(c, "const_eq_for!(slice; |l, r|)", e, const_eq_for!(slice; x, y, |l, r| *l == *r));
                    ck!(c, "const_cmp_for!(slice; |l, r|)", o, const_cmp_for!(slice; x, y, |l, r| l.cmp(r)));
                    ck!(c, "const_eq_for!(slice; |x| key)", e, const_eq_for!(slice; x, y, |v| *v));
                    ck!(c, "const_cmp_for!(slice; |x| key)", o, const_cmp_for!(slice; x, y, |v| *v));
                    ck!(c, "const_eq_for!(slice; path)", e, const_eq_for!(slice; x, y, by_ref_eq));
                    ck!(c, "const_cmp_for!(slice; path)", o, const_cmp_for!(slice; x, y, by_ref_cmp));
                    // laws on konst's own answers
                    ck!(c, "antisymmetry(cmp_slice)", $cmps(x, y).reverse(), $cmps(y, x));
                    ck!(c, "cmp==Equal <=> eq", $eqs(x, y), $cmps(x, y) == Ordering::Equal);
                    // Option<&[T]> : all four combinations
                    for (ox, oy) in [(Some(x), Some(y)), (Some(x), None), (None, Some(y)), (None, None)] {
                        c.desc = format!("{ox:?}, {oy:?}");
                        ck!(c, stringify!($eqos), ox == oy, $eqos(ox, oy));
                        ck!(c, stringify!($cmpos), ox.cmp(&oy), $cmpos(ox, oy));
                        ck!(c, "const_eq!(Option<&[T]>)", ox == oy, const_eq!(ox, oy));
                        ck!(c, "const_cmp!(Option<&[T]>)", ox.cmp(&oy), const_cmp!(ox, oy));
                        ck!(c, "const_eq_for!(option; slices)", ox == oy, const_eq_for!(option; ox, oy));
                        ck!(c, "const_cmp_for!(option; slices)", ox.cmp(&oy), const_cmp_for!(option; ox, oy));
                    }
                    if x.len() != y.len() && !x.is_empty() && !y.is_empty() && x[0] != y[0] {
                        c.rep.nontrivial(|| format!("{} {:?} vs {:?} (different lengths, first elements differ)", $name, x, y));
                    }
                }
            }
            if only.is_none() {
                rep.sample(|| format!("{}: all pairs of {} slices of length <= {} over {:?}", $name, slices.len(), l, vals));
                // transitivity over all triples of length <= 2
                let small = all_seqs(&vals, l.min(2));
                for a in &small { for b in &small { for c3 in &small {
                    rep.transitions += 1;
                    let (ab, bc, ac) = ($cmps(a, b), $cmps(b, c3), $cmps(a, c3));
                    if ab != Ordering::Greater && bc != Ordering::Greater && ac == Ordering::Greater
                        || ab == Ordering::Less && bc == Ordering::Less && ac != Ordering::Less {
                        rep.violation(viol("cmp", "transitivity", format!("{}|T|0|0", $name),
                            format!("{}: {a:?} <= {b:?} <= {c3:?}", stringify!($cmps)), "a<=c".into(), format!("{ac:?}")));
                    }
                }}}
                // scalars: all pairs
                let sc: Vec<$T> = vec![$($sv),*];
                for (i, &a) in sc.iter().enumerate() { for (j, &b) in sc.iter().enumerate() {
                    let mut c = Ctx { rep, ty: $name, l: 0, i, j, desc: format!("{a:?}, {b:?}") };
                    c.rep.states += 1;
                    ck!(c, stringify!($cmpv), a.cmp(&b), $cmpv(a, b));
                    ck!(c, "const_eq!(scalar)", a == b, const_eq!(a, b));
                    ck!(c, "const_cmp!(scalar)", a.cmp(&b), const_cmp!(a, b));
                    ck!(c, "assertc_eq!(scalar) panics iff !=", a != b, panics(|| { assertc_eq!(a, b); }));
                    ck!(c, "assertc_ne!(scalar) panics iff ==", a == b, panics(|| { assertc_ne!(a, b); }));
                    for (oa, ob) in [(Some(a), Some(b)), (Some(a), None), (None, Some(b)), (None, None)] {
                        c.desc = format!("{oa:?}, {ob:?}");
                        ck!(c, stringify!($eqov), oa == ob, $eqov(oa, ob));
                        ck!(c, stringify!($cmpov), oa.cmp(&ob), $cmpov(oa, ob));
                        ck!(c, "const_eq!(Option<scalar>)", oa == ob, const_eq!(oa, ob));
                        ck!(c, "const_cmp!(Option<scalar>)", oa.cmp(&ob), const_cmp!(oa, ob));
                        ck!(c, "const_eq_for!(option; scalar)", oa == ob, const_eq_for!(option; oa, ob));
                        ck!(c, "const_cmp_for!(option; scalar)", oa.cmp(&ob), const_cmp_for!(option; oa, ob));
                        ck!(c, "const_eq_for!(option; |l, r|)", oa == ob, const_eq_for!(option; oa, ob, |l, r| *l == *r));
                        ck!(c, "const_cmp_for!(option; |l, r|)", oa.cmp(&ob), const_cmp_for!(option; oa, ob, |l, r| l.cmp(r)));
                        ck!(c, "const_eq_for!(option; |x| key)", oa == ob, const_eq_for!(option; oa, ob, |v| *v));
                        ck!(c, "const_cmp_for!(option; |x| key)", oa.cmp(&ob), const_cmp_for!(option; oa, ob, |v| *v));
                        ck!(c, "const_eq_for!(option; path)", oa == ob, const_eq_for!(option; oa, ob, by_ref_eq));
                        ck!(c, "const_cmp_for!(option; path)", oa.cmp(&ob), const_cmp_for!(option; oa, ob, by_ref_cmp));
                    }
                }}
            }
        }
    };
}

use konst::primitive::cmp as pc;
use konst::slice::cmp as sc;

macro_rules! int_type {
    ($fname:ident, $T:ident, $eqs:ident, $cmps:ident, $eqos:ident, $cmpos:ident, $cmpv:ident, $eqov:ident, $cmpov:ident) => {
        prim_type! {$fname, $T, stringify!($T), [<$T>::MIN, (<$T>::MAX / 2), <$T>::MAX],
            scalars = [<$T>::MIN, <$T>::MIN + 1, (0 as $T).wrapping_sub(1), 0, 1, (<$T>::MAX / 2), <$T>::MAX - 1, <$T>::MAX],
            slice = (sc::$eqs, sc::$cmps, sc::$eqos, sc::$cmpos), scalar = (pc::$cmpv, pc::$eqov, pc::$cmpov)}
    };
}
int_type! {t_u8, u8, eq_slice_u8, cmp_slice_u8, eq_option_slice_u8, cmp_option_slice_u8, cmp_u8, eq_option_u8, cmp_option_u8}
int_type! {t_u16, u16, eq_slice_u16, cmp_slice_u16, eq_option_slice_u16, cmp_option_slice_u16, cmp_u16, eq_option_u16, cmp_option_u16}
int_type! {t_u32, u32, eq_slice_u32, cmp_slice_u32, eq_option_slice_u32, cmp_option_slice_u32, cmp_u32, eq_option_u32, cmp_option_u32}
int_type! {t_u64, u64, eq_slice_u64, cmp_slice_u64, eq_option_slice_u64, cmp_option_slice_u64, cmp_u64, eq_option_u64, cmp_option_u64}
int_type! {t_u128, u128, eq_slice_u128, cmp_slice_u128, eq_option_slice_u128, cmp_option_slice_u128, cmp_u128, eq_option_u128, cmp_option_u128}
int_type! {t_usize, usize, eq_slice_usize, cmp_slice_usize, eq_option_slice_usize, cmp_option_slice_usize, cmp_usize, eq_option_usize, cmp_option_usize}
int_type! {t_i8, i8, eq_slice_i8, cmp_slice_i8, eq_option_slice_i8, cmp_option_slice_i8, cmp_i8, eq_option_i8, cmp_option_i8}
int_type! {t_i16, i16, eq_slice_i16, cmp_slice_i16, eq_option_slice_i16, cmp_option_slice_i16, cmp_i16, eq_option_i16, cmp_option_i16}
int_type! {t_i32, i32, eq_slice_i32, cmp_slice_i32, eq_option_slice_i32, cmp_option_slice_i32, cmp_i32, eq_option_i32, cmp_option_i32}
int_type! {t_i64, i64, eq_slice_i64, cmp_slice_i64, eq_option_slice_i64, cmp_option_slice_i64, cmp_i64, eq_option_i64, cmp_option_i64}
int_type! {t_i128, i128, eq_slice_i128, cmp_slice_i128, eq_option_slice_i128, cmp_option_slice_i128, cmp_i128, eq_option_i128, cmp_option_i128}
int_type! {t_isize, isize, eq_slice_isize, cmp_slice_isize, eq_option_slice_isize, cmp_option_slice_isize, cmp_isize, eq_option_isize, cmp_option_isize}
prim_type! {t_bool, bool, "bool", [false, true], scalars = [false, true],
    slice = (sc::eq_slice_bool, sc::cmp_slice_bool, sc::eq_option_slice_bool, sc::cmp_option_slice_bool), scalar = (pc::cmp_bool, pc::eq_option_bool, pc::cmp_option_bool)}
prim_type! {t_char, char, "char", ['\0', 'ñ', '\u{10FFFF}'], scalars = ['\0', '\u{1}', 'a', '\u{7F}', '\u{80}', 'ñ', '\u{D7FF}', '\u{E000}', '\u{FFFF}', '\u{10000}', '\u{10FFFF}'],
    slice = (sc::eq_slice_char, sc::cmp_slice_char, sc::eq_option_slice_char, sc::cmp_option_slice_char), scalar = (pc::cmp_char, pc::eq_option_char, pc::cmp_option_char)}

// u8 complete: all 65536 pairs of u8 / i8 scalars
fn complete_8bit(rep: &mut Report) {
    for a in 0..=255u8 {
        for b in 0..=255u8 {
            rep.states += 1;
            rep.transitions += 4;
            let (ia, ib) = (a as i8, b as i8);
            if pc::cmp_u8(a, b) != a.cmp(&b) || const_cmp!(a, b) != a.cmp(&b) || const_eq!(a, b) != (a == b) {
                rep.violation(viol("cmp", "cmp_u8", format!("u8x|0|{a}|{b}"), format!("cmp_u8({a},{b})"), format!("{:?}", a.cmp(&b)), format!("{:?}", pc::cmp_u8(a, b))));
            }
            if pc::cmp_i8(ia, ib) != ia.cmp(&ib) || const_cmp!(ia, ib) != ia.cmp(&ib) || const_eq!(ia, ib) != (ia == ib) {
                rep.violation(viol("cmp", "cmp_i8", format!("i8x|0|{a}|{b}"), format!("cmp_i8({ia},{ib})"), format!("{:?}", ia.cmp(&ib)), format!("{:?}", pc::cmp_i8(ia, ib))));
            }
        }
    }
}

// strings, slices of strings, slices of byte slices
fn t_str(rep: &mut Report, l: usize, only: Option<(usize, usize)>) {
    let strs = strings_over(&["a", "b", "ñ"], l);
    for (i, x) in strs.iter().enumerate() {
        for (j, y) in strs.iter().enumerate() {
            if let Some(o) = only {
                if o != (i, j) {
                    continue;
                }
            }
            let (x, y): (&str, &str) = (x, y);
            let mut c = Ctx { rep, ty: "str", l, i, j, desc: format!("{x:?}, {y:?}") };
            c.rep.states += 1;
            let (e, o) = (x == y, x.cmp(y));
            ck!(c, "eq_str", e, konst::eq_str(x, y));
            ck!(c, "cmp_str", o, konst::cmp_str(x, y));
            ck!(c, "string::eq_str", e, konst::string::eq_str(x, y));
            ck!(c, "string::cmp_str", o, konst::string::cmp_str(x, y));
            ck!(c, "const_eq!(str)", e, const_eq!(x, y));
            ck!(c, "const_cmp!(str)", o, const_cmp!(x, y));
            ck!(c, "antisymmetry(cmp_str)", konst::cmp_str(x, y).reverse(), konst::cmp_str(y, x));
            ck!(c, "assertc_eq!(str) panics iff !=", !e, panics(|| {
                assertc_eq!(x, y);
            }));
            ck!(c, "assertc_ne!(str) panics iff ==", e, panics(|| {
                assertc_ne!(x, y);
            }));
            for (ox, oy) in [(Some(x), Some(y)), (Some(x), None), (None, Some(y)), (None, None)] {
                c.desc = format!("{ox:?}, {oy:?}");
                ck!(c, "eq_option_str", ox == oy, konst::eq_option_str(ox, oy));
                ck!(c, "cmp_option_str", ox.cmp(&oy), konst::cmp_option_str(ox, oy));
                ck!(c, "const_eq!(Option<&str>)", ox == oy, const_eq!(ox, oy));
                ck!(c, "const_cmp!(Option<&str>)", ox.cmp(&oy), const_cmp!(ox, oy));
            }
            if x.len() != y.len() && !x.is_empty() && !y.is_empty() && x.as_bytes()[0] != y.as_bytes()[0] {
                c.rep.nontrivial(|| format!("str {x:?} vs {y:?}"));
            }
        }
    }
    if only.is_none() {
        rep.sample(|| format!("str: all pairs of {} strings of <= {l} atoms over [a,b,ñ]", strs.len()));
    }
}

fn t_slice_str(rep: &mut Report, l: usize, only: Option<(usize, usize)>) {
    let elems: Vec<&'static str> = vec!["", "a", "b", "ab"];
    let seqs = all_seqs(&elems, l.min(3));
    let bseqs: Vec<Vec<&[u8]>> = seqs.iter().map(|s| s.iter().map(|x| x.as_bytes()).collect()).collect();
    for i in 0..seqs.len() {
        for j in 0..seqs.len() {
            if let Some(o) = only {
                if o != (i, j) {
                    continue;
                }
            }
            let (x, y): (&[&str], &[&str]) = (&seqs[i], &seqs[j]);
            let mut c = Ctx { rep, ty: "slice_str", l, i, j, desc: format!("{x:?}, {y:?}") };
            c.rep.states += 1;
            let (e, o) = (x == y, x.cmp(y));
            ck!(c, "eq_slice_str", e, sc::eq_slice_str(x, y));
            ck!(c, "cmp_slice_str", o, sc::cmp_slice_str(x, y));
            ck!(c, "const_eq!(&[&str])", e, const_eq!(x, y));
            ck!(c, "const_cmp!(&[&str])", o, const_cmp!(x, y));
            ck!(c, "const_eq_for!(slice; &str elems, eq_str)", e, const_eq_for!(slice; x, y, konst::eq_str));
            ck!(c, "const_cmp_for!(slice; &str elems, cmp_str)", o, const_cmp_for!(slice; x, y, konst::cmp_str));
            let (bx, by): (&[&[u8]], &[&[u8]]) = (&bseqs[i], &bseqs[j]);
            ck!(c, "eq_slice_bytes", bx == by, sc::eq_slice_bytes(bx, by));
            ck!(c, "cmp_slice_bytes", bx.cmp(by), sc::cmp_slice_bytes(bx, by));
            ck!(c, "const_eq!(&[&[u8]])", bx == by, const_eq!(bx, by));
            ck!(c, "const_cmp!(&[&[u8]])", bx.cmp(by), const_cmp!(bx, by));
            for (ox, oy) in [(Some(x), Some(y)), (Some(x), None), (None, Some(y)), (None, None)] {
                c.desc = format!("{ox:?}, {oy:?}");
                ck!(c, "eq_option_slice_str", ox == oy, sc::eq_option_slice_str(ox, oy));
                ck!(c, "cmp_option_slice_str", ox.cmp(&oy), sc::cmp_option_slice_str(ox, oy));
            }
            for (ox, oy) in [(Some(bx), Some(by)), (Some(bx), None), (None, Some(by)), (None, None)] {
                c.desc = format!("{ox:?}, {oy:?}");
                ck!(c, "eq_option_slice_bytes", ox == oy, sc::eq_option_slice_bytes(ox, oy));
                ck!(c, "cmp_option_slice_bytes", ox.cmp(&oy), sc::cmp_option_slice_bytes(ox, oy));
            }
            if x.len() != y.len() && !x.is_empty() && !y.is_empty() && x[0] != y[0] {
                c.rep.nontrivial(|| format!("&[&str] {x:?} vs {y:?}"));
            }
        }
    }
}

macro_rules! nonzero {
    ($c:ident; $(($NZ:ident, $I:ident, $eq:ident, $cmp:ident, $eqo:ident, $cmpo:ident))*) => {$(
        {
            use konst::nonzero::cmp as nz;
            let raw: [$I; 6] = [<$I>::MIN, (0 as $I).wrapping_sub(1), 1, 2, <$I>::MAX - 1, <$I>::MAX];
            let vals: Vec<$NZ> = raw.iter().filter_map(|&v| $NZ::new(v)).collect();
            for (i, &a) in vals.iter().enumerate() { for (j, &b) in vals.iter().enumerate() {
                $c.ty = stringify!($NZ); $c.i = i; $c.j = j; $c.desc = format!("{a:?}, {b:?}");
                $c.rep.states += 1;
                ck!($c, stringify!($eq), a == b, nz::$eq(a, b));
                ck!($c, stringify!($cmp), a.cmp(&b), nz::$cmp(a, b));
                ck!($c, "const_eq!(NonZero)", a == b, const_eq!(a, b));
                ck!($c, "const_cmp!(NonZero)", a.cmp(&b), const_cmp!(a, b));
                for (oa, ob) in [(Some(a), Some(b)), (Some(a), None), (None, Some(b)), (None, None)] {
                    $c.desc = format!("{oa:?}, {ob:?}");
                    ck!($c, stringify!($eqo), oa == ob, nz::$eqo(oa, ob));
                    ck!($c, stringify!($cmpo), oa.cmp(&ob), nz::$cmpo(oa, ob));
                    ck!($c, "const_eq!(Option<NonZero>)", oa == ob, const_eq!(oa, ob));
                    ck!($c, "const_cmp!(Option<NonZero>)", oa.cmp(&ob), const_cmp!(oa, ob));
                }
            }}
        }
    )*};
}
macro_rules! ranges {
    ($c:ident; $(($T:ty, $eqr:ident, $eqri:ident, [$($v:expr),*]))*) => {$(
        {
            use konst::range::cmp as rc;
            let vals: Vec<$T> = vec![$($v),*];
            let mut rs = Vec::new();
            for &a in &vals { for &b in &vals { rs.push((a, b)); } }
            for (i, &(a0, a1)) in rs.iter().enumerate() { for (j, &(b0, b1)) in rs.iter().enumerate() {
                $c.ty = concat!("Range<", stringify!($T), ">"); $c.i = i; $c.j = j;
                $c.rep.states += 1;
                let (x, y) = (a0..a1, b0..b1);
                $c.desc = format!("{x:?}, {y:?}");
                ck!($c, stringify!($eqr), x == y, rc::$eqr(&x, &y));
                ck!($c, "const_eq!(Range)", x == y, const_eq!(x, y));
                ck!($c, "const_eq_for!(range; ..)", x == y, const_eq_for!(range; x, y));
                ck!($c, "const_eq_for!(range; |l, r|)", x == y, const_eq_for!(range; x, y, |l, r| *l == *r));
                ck!($c, "const_eq_for!(range; |x| key)", x == y, const_eq_for!(range; x, y, |v| *v));
                let (x, y) = (a0..=a1, b0..=b1);
                $c.desc = format!("{x:?}, {y:?}");
                ck!($c, stringify!($eqri), x == y, rc::$eqri(&x, &y));
                ck!($c, "const_eq!(RangeInclusive)", x == y, const_eq!(x, y));
                ck!($c, "const_eq_for!(range_inclusive; ..)", x == y, const_eq_for!(range_inclusive; x, y));
                ck!($c, "const_eq_for!(range_inclusive; |l, r|)", x == y, const_eq_for!(range_inclusive; x, y, |l, r| **l == **r));
                ck!($c, "const_eq_for!(range_inclusive; |x| key)", x == y, const_eq_for!(range_inclusive; x, y, |v| **v));
            }}
        }
    )*};
}

fn t_misc(rep: &mut Report) {
    let mut c = Ctx { rep, ty: "misc", l: 0, i: 0, j: 0, desc: String::new() };
    nonzero! {c;
        (NonZeroU8, u8, eq_nonzerou8, cmp_nonzerou8, eq_option_nonzerou8, cmp_option_nonzerou8)
        (NonZeroI8, i8, eq_nonzeroi8, cmp_nonzeroi8, eq_option_nonzeroi8, cmp_option_nonzeroi8)
        (NonZeroU16, u16, eq_nonzerou16, cmp_nonzerou16, eq_option_nonzerou16, cmp_option_nonzerou16)
        (NonZeroI16, i16, eq_nonzeroi16, cmp_nonzeroi16, eq_option_nonzeroi16, cmp_option_nonzeroi16)
        (NonZeroU32, u32, eq_nonzerou32, cmp_nonzerou32, eq_option_nonzerou32, cmp_option_nonzerou32)
        (NonZeroI32, i32, eq_nonzeroi32, cmp_nonzeroi32, eq_option_nonzeroi32, cmp_option_nonzeroi32)
        (NonZeroU64, u64, eq_nonzerou64, cmp_nonzerou64, eq_option_nonzerou64, cmp_option_nonzerou64)
        (NonZeroI64, i64, eq_nonzeroi64, cmp_nonzeroi64, eq_option_nonzeroi64, cmp_option_nonzeroi64)
        (NonZeroU128, u128, eq_nonzerou128, cmp_nonzerou128, eq_option_nonzerou128, cmp_option_nonzerou128)
        (NonZeroI128, i128, eq_nonzeroi128, cmp_nonzeroi128, eq_option_nonzeroi128, cmp_option_nonzeroi128)
        (NonZeroUsize, usize, eq_nonzerousize, cmp_nonzerousize, eq_option_nonzerousize, cmp_option_nonzerousize)
        (NonZeroIsize, isize, eq_nonzeroisize, cmp_nonzeroisize, eq_option_nonzeroisize, cmp_option_nonzeroisize)
    }
    ranges! {c;
        (u8, eq_range_u8, eq_rangeinc_u8, [0, 1, 254, 255])
        (u16, eq_range_u16, eq_rangeinc_u16, [0, 1, u16::MAX])
        (u32, eq_range_u32, eq_rangeinc_u32, [0, 1, u32::MAX])
        (u64, eq_range_u64, eq_rangeinc_u64, [0, 1, u64::MAX])
        (u128, eq_range_u128, eq_rangeinc_u128, [0, 1, u128::MAX])
        (usize, eq_range_usize, eq_rangeinc_usize, [0, 1, usize::MAX])
        (char, eq_range_char, eq_rangeinc_char, ['\0', 'a', '\u{10FFFF}'])
    }
    {
        use konst::other::cmp as oc;
        let ords = [Ordering::Less, Ordering::Equal, Ordering::Greater];
        for (i, &a) in ords.iter().enumerate() {
            for (j, &b) in ords.iter().enumerate() {
                c.ty = "Ordering";
                c.i = i;
                c.j = j;
                c.desc = format!("{a:?}, {b:?}");
                c.rep.states += 1;
                ck!(c, "eq_ordering", a == b, oc::eq_ordering(a, b));
                ck!(c, "cmp_ordering", a.cmp(&b), oc::cmp_ordering(a, b));
                ck!(c, "const_eq!(Ordering)", a == b, const_eq!(a, b));
                ck!(c, "const_cmp!(Ordering)", a.cmp(&b), const_cmp!(a, b));
                for (oa, ob) in [(Some(a), Some(b)), (Some(a), None), (None, Some(b)), (None, None)] {
                    c.desc = format!("{oa:?}, {ob:?}");
                    ck!(c, "eq_option_ordering", oa == ob, oc::eq_option_ordering(oa, ob));
                    ck!(c, "cmp_option_ordering", oa.cmp(&ob), oc::cmp_option_ordering(oa, ob));
                }
            }
        }
        let p = std::marker::PhantomData::<u8>;
        c.ty = "PhantomData";
        c.desc = "PhantomData, PhantomData".into();
        ck!(c, "eq_phantomdata", p == p, oc::eq_phantomdata(p, p));
        ck!(c, "cmp_phantomdata", p.cmp(&p), oc::cmp_phantomdata(p, p));
        ck!(c, "const_eq!(PhantomData)", true, const_eq!(p, p));
        let pp = std::marker::PhantomPinned;
        ck!(c, "eq_phantompinned", pp == pp, oc::eq_phantompinned(pp, pp));
        ck!(c, "cmp_phantompinned", pp.cmp(&pp), oc::cmp_phantompinned(pp, pp));
    }
}

type F = fn(&mut Report, usize, Option<(usize, usize)>);
const FAMS: &[(&str, F)] = &[
    ("u8", t_u8), ("u16", t_u16), ("u32", t_u32), ("u64", t_u64), ("u128", t_u128), ("usize", t_usize),
    ("i8", t_i8), ("i16", t_i16), ("i32", t_i32), ("i64", t_i64), ("i128", t_i128), ("isize", t_isize),
    ("bool", t_bool), ("char", t_char), ("str", t_str), ("slice_str", t_slice_str),
];

/// long operands (8..=maxl bytes / elements): equal, differing at exactly one position (smaller, greater, high bit),
/// and one a proper prefix of the other - the shapes on which a word-at-a-time comparison differs from an element loop
fn t_long(rep: &mut Report, maxl: usize) {
    let mut pairs: Vec<(Vec<u8>, Vec<u8>)> = Vec::new();
    for len in 8..=maxl {
        let base: Vec<u8> = (0..len).map(|i| b'b' + (i % 3) as u8).collect();
        pairs.push((base.clone(), base.clone()));
        pairs.push((base.clone(), base[..len - 1].to_vec()));
        for p in 0..len {
            for nb in [b'a', b'z', 0x01, 0x7F] {
                let mut o = base.clone();
                o[p] = nb;
                pairs.push((base.clone(), o));
            }
        }
    }
    for (k, (a, b)) in pairs.iter().enumerate() {
        for (x, y) in [(a, b), (b, a)] {
            let (sx, sy) = (std::str::from_utf8(x).unwrap(), std::str::from_utf8(y).unwrap());
            let mut c = Ctx { rep, ty: "long", l: maxl, i: k, j: 0, desc: format!("{sx:?}, {sy:?}") };
            c.rep.states += 1;
            let (xs, ys): (&[u8], &[u8]) = (x, y);
            ck!(c, "eq_str(long)", sx == sy, konst::eq_str(sx, sy));
            ck!(c, "cmp_str(long)", sx.cmp(sy), konst::cmp_str(sx, sy));
            ck!(c, "eq_bytes(long)", xs == ys, konst::slice::eq_bytes(xs, ys));
            ck!(c, "cmp_bytes(long)", xs.cmp(ys), konst::slice::cmp_bytes(xs, ys));
            ck!(c, "eq_slice_u8(long)", xs == ys, sc::eq_slice_u8(xs, ys));
            ck!(c, "cmp_slice_u8(long)", xs.cmp(ys), sc::cmp_slice_u8(xs, ys));
            ck!(c, "const_eq!(str, long)", sx == sy, const_eq!(sx, sy));
            ck!(c, "const_cmp!(str, long)", sx.cmp(sy), const_cmp!(sx, sy));
            let (wx, wy): (Vec<u64>, Vec<u64>) = (x.iter().map(|&b| u64::MAX - b as u64).collect(), y.iter().map(|&b| u64::MAX - b as u64).collect());
            let (wxs, wys): (&[u64], &[u64]) = (&wx, &wy);
            ck!(c, "eq_slice_u64(long)", wxs == wys, sc::eq_slice_u64(wxs, wys));
            ck!(c, "cmp_slice_u64(long)", wxs.cmp(wys), sc::cmp_slice_u64(wxs, wys));
        }
    }
}

pub fn run(tier: Tier, rep: &mut Report) -> (String, String) {
    let l = tier.pick(5, 6, 2);
    if tier != Tier::Miri {
        t_long(rep, tier.pick(17, 33, 0));
    }
    let r = par_each(FAMS, n_threads(tier), |(_, f), r| f(r, l, None));
    rep.merge(r);
    t_misc(rep);
    if tier != Tier::Miri {
        complete_8bit(rep);
    }
    rep.traces = rep.transitions;
    (
        "state = ordered pair of values of one supported type; transition = one eq_*/cmp_*/eq_option_*/cmp_option_* function, CmpWrapper method, const_eq!/const_cmp!/const_eq_for!/const_cmp_for! (default, |l,r|, |x| key and path forms) or assertc_eq!/assertc_ne! evaluation, compared with PartialEq::eq / Ord::cmp; plus antisymmetry, cmp==Equal<=>eq on all pairs and transitivity on all triples of length <= 2; non-trivial = slices/strings of different non-zero lengths whose first elements differ (length-vs-element precedence)".into(),
        format!("14 primitive element types: all slices of length <= {l} over {{MIN, MAX/2, MAX}} (bool: both values; char: 0, ñ, 10FFFF), all ordered pairs, x all 4 Option combinations; scalars: all pairs of 8 boundary values per integer type, all 65536 pairs of u8 and of i8; str over [a,b,ñ] <= {l} atoms; &[&str] and &[&[u8]] of length <= {} over [\"\",a,b,ab]; all NonZero types (6 boundary values), Range/RangeInclusive of u8..u128,usize,char, Ordering, PhantomData, PhantomPinned; long strings / byte slices / u64 slices of length 8..={} (equal, one position changed to 4 values, proper prefix)", l.min(3), tier.pick(17, 33, 0)),
    )
}

pub fn replay(case: &str, rep: &mut Report) {
    let p: Vec<&str> = case.split('|').collect();
    if p[1] == "T" || p[0] == "u8x" || p[0] == "i8x" || p[0] == "misc" {
        t_misc(rep);
        complete_8bit(rep);
        for (n, f) in FAMS {
            if *n == p[0] {
                f(rep, 2, None)
            }
        }
        return;
    }
    let (l, i, j): (usize, usize, usize) = (p[1].parse().unwrap(), p[2].parse().unwrap(), p[3].parse().unwrap());
    let mut found = false;
    for (n, f) in FAMS {
        if *n == p[0] {
            found = true;
            if l == 0 {
                f(rep, 1, None) // scalar pair: re-run the (small) scalar family
            } else {
                f(rep, l, Some((i, j)))
            }
        }
    }
    if !found {
        t_misc(rep);
    }
}
