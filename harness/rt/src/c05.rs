//! C05 — prefix/suffix tests, strip, trim = std (E1).
use crate::common::*;
use konst::slice as ks;
use konst::string as kst;

fn m_trim_start<'a>(mut h: &'a [u8], n: &[u8]) -> &'a [u8] {
    if n.is_empty() {
        return h;
    }
    while let Some(r) = h.strip_prefix(n) {
        h = r;
    }
    h
}
fn m_trim_end<'a>(mut h: &'a [u8], n: &[u8]) -> &'a [u8] {
    if n.is_empty() {
        return h;
    }
    while let Some(r) = h.strip_suffix(n) {
        h = r;
    }
    h
}

struct Ctx<'a> {
    rep: &'a mut Report,
    h: &'a [u8],
    n: &'a [u8],
    kind: &'static str,
}
fn show(b: &[u8]) -> String {
    match std::str::from_utf8(b) {
        Ok(s) => format!("{s:?}"),
        Err(_) => format!("{b:02x?}"),
    }
}
impl Ctx<'_> {
    fn cmp_any<X: PartialEq + std::fmt::Debug + std::hash::Hash>(&mut self, func: &str, exps: &[X], obs: Result<X, String>) {
        self.rep.transitions += 1;
        self.rep.evaluations += 1;
        self.rep.outcome(&(func, obs.as_ref().ok()));
        let bad = match &obs {
            Ok(o) => !exps.iter().any(|e| e == o),
            Err(_) => true,
        };
        if bad {
            let replay = format!("{}|{}", hex(self.h), hex(self.n));
            let case = format!("{}[{} pattern]({}, {})", func, self.kind, show(self.h), show(self.n));
            let o = match obs {
                Ok(o) => format!("{o:?}"),
                Err(p) => format!("panic: {p}"),
            };
            self.rep.violation(viol("strip-trim", func, replay, case, format!("{:?}", exps), o));
        }
    }
    fn cmp<X: PartialEq + std::fmt::Debug + std::hash::Hash>(&mut self, func: &str, exp: X, obs: Result<X, String>) {
        self.cmp_any(func, &[exp], obs)
    }
    fn sub(&mut self, func: &str, hs: &str, r: &str) {
        if let Err(e) = substr_oracle(hs, r, self.rep) {
            let replay = format!("{}|{}", hex(self.h), hex(self.n));
            self.rep.violation(viol("strip-trim", func, replay, format!("{func}({hs:?}, {})", show(self.n)), "sub-string on char boundaries".into(), e));
        }
    }
}

macro_rules! bytes_fns {
    ($c:ident, $h:ident, $n:ident, $pat:expr) => {{
        let ts = m_trim_start($h, $n);
        let te = m_trim_end($h, $n);
        let both1 = loc($h, m_trim_end(ts, $n));
        let both2 = loc($h, m_trim_start(te, $n));
        $c.cmp("bytes_start_with", $h.starts_with($n), catch(|| ks::bytes_start_with($h, $pat)));
        $c.cmp("bytes_end_with", $h.ends_with($n), catch(|| ks::bytes_end_with($h, $pat)));
        $c.cmp("bytes_strip_prefix", $h.strip_prefix($n).map(|x| (loc($h, x), x.len())), catch(|| ks::bytes_strip_prefix($h, $pat).map(|x| (loc($h, x), x.len()))));
        $c.cmp("bytes_strip_suffix", $h.strip_suffix($n).map(|x| (loc($h, x), x.len())), catch(|| ks::bytes_strip_suffix($h, $pat).map(|x| (loc($h, x), x.len()))));
        $c.cmp("bytes_trim_start_matches", loc($h, ts), catch(|| loc($h, ks::bytes_trim_start_matches($h, $pat))));
        $c.cmp("bytes_trim_end_matches", loc($h, te), catch(|| loc($h, ks::bytes_trim_end_matches($h, $pat))));
        $c.cmp_any("bytes_trim_matches", &[both1, both2], catch(|| loc($h, ks::bytes_trim_matches($h, $pat))));
    }};
}
macro_rules! str_fns {
    ($c:ident, $hs:ident, $n:ident, $pat:expr) => {{
        let hb = $hs.as_bytes();
        let ts = m_trim_start(hb, $n);
        let te = m_trim_end(hb, $n);
        let both1 = loc(hb, m_trim_end(ts, $n));
        let both2 = loc(hb, m_trim_start(te, $n));
        let l = |x: &str| loc(hb, x.as_bytes());
        $c.cmp("string::starts_with", $hs.starts_with($pat), catch(|| kst::starts_with($hs, $pat)));
        $c.cmp("string::ends_with", $hs.ends_with($pat), catch(|| kst::ends_with($hs, $pat)));
        $c.cmp("string::strip_prefix", $hs.strip_prefix($pat).map(|x| (l(x), x.len())), catch(|| kst::strip_prefix($hs, $pat).map(|x| (l(x), x.len()))));
        $c.cmp("string::strip_suffix", $hs.strip_suffix($pat).map(|x| (l(x), x.len())), catch(|| kst::strip_suffix($hs, $pat).map(|x| (l(x), x.len()))));
        if !$n.is_empty() {
            // machinery self-check of the boring model against std
            if l($hs.trim_start_matches($pat)) != loc(hb, ts) || l($hs.trim_end_matches($pat)) != loc(hb, te) {
                $c.rep.machinery_errors.push(format!("trim model disagrees with std on {:?}/{:?}", $hs, show($n)));
            }
        }
        $c.cmp("string::trim_start_matches", loc(hb, ts), catch(|| l(kst::trim_start_matches($hs, $pat))));
        $c.cmp("string::trim_end_matches", loc(hb, te), catch(|| l(kst::trim_end_matches($hs, $pat))));
        $c.cmp_any("string::trim_matches", &[both1, both2], catch(|| l(kst::trim_matches($hs, $pat))));
        for (f, r) in [
            ("string::strip_prefix", catch(|| kst::strip_prefix($hs, $pat))),
            ("string::strip_suffix", catch(|| kst::strip_suffix($hs, $pat))),
            ("string::trim_start_matches", catch(|| Some(kst::trim_start_matches($hs, $pat)))),
            ("string::trim_end_matches", catch(|| Some(kst::trim_end_matches($hs, $pat)))),
            ("string::trim_matches", catch(|| Some(kst::trim_matches($hs, $pat)))),
        ] {
            if let Ok(Some(x)) = r {
                $c.sub(f, $hs, x);
            }
        }
    }};
}
macro_rules! array_pat {
    ($c:ident, $h:ident, $n:ident; $($N:literal)*) => {
        match $n.len() {
            $($N => { let arr: [u8; $N] = <[u8; $N]>::try_from($n).unwrap(); $c.kind = "[u8;N]"; bytes_fns!($c, $h, $n, &arr); })*
            _ => {}
        }
    };
}

fn one_pair(rep: &mut Report, h: &[u8], n: &[u8]) {
    let mut c = Ctx { rep, h, n, kind: "[u8]" };
    c.rep.states += 1;
    bytes_fns!(c, h, n, n);
    array_pat!(c, h, n; 0 1 2 3 4 5 6);
    if let Ok(ns) = std::str::from_utf8(n) {
        c.kind = "str";
        bytes_fns!(c, h, n, ns);
        let mut it = ns.chars();
        let ch = match (it.next(), it.next()) {
            (Some(ch), None) => Some(ch),
            _ => None,
        };
        if let Some(ch) = ch {
            c.kind = "char";
            bytes_fns!(c, h, n, &ch);
        }
        if let Ok(hs) = std::str::from_utf8(h) {
            c.kind = "str";
            str_fns!(c, hs, n, ns);
            if let Some(ch) = ch {
                c.kind = "char";
                str_fns!(c, hs, n, ch);
            }
        }
    }
    // non-trivial: a proper, non-empty repetition is trimmed from some end but a partial repetition follows
    if n.len() >= 2 {
        let ts = m_trim_start(h, n);
        if ts.len() < h.len() && !ts.is_empty() && ts[0] == n[0] {
            c.rep.nontrivial(|| format!("trim {} from {} (partial repetition after the run: at_start rollback)", show(n), show(h)));
        }
    }
}

fn one_ws(rep: &mut Report, h: &[u8]) {
    let n: &[u8] = b"<ws>";
    let mut c = Ctx { rep, h, n, kind: "ws" };
    c.rep.states += 1;
    let l = |x: &[u8]| (loc(h, x), x.len());
    c.cmp("bytes_trim", l(h.trim_ascii()), catch(|| l(ks::bytes_trim(h))));
    c.cmp("bytes_trim_start", l(h.trim_ascii_start()), catch(|| l(ks::bytes_trim_start(h))));
    c.cmp("bytes_trim_end", l(h.trim_ascii_end()), catch(|| l(ks::bytes_trim_end(h))));
    if let Ok(hs) = std::str::from_utf8(h) {
        let l = |x: &str| (loc(h, x.as_bytes()), x.len());
        c.cmp("string::trim", l(hs.trim_ascii()), catch(|| l(kst::trim(hs))));
        c.cmp("string::trim_start", l(hs.trim_ascii_start()), catch(|| l(kst::trim_start(hs))));
        c.cmp("string::trim_end", l(hs.trim_ascii_end()), catch(|| l(kst::trim_end(hs))));
        for (f, r) in [("string::trim", catch(|| kst::trim(hs))), ("string::trim_start", catch(|| kst::trim_start(hs))), ("string::trim_end", catch(|| kst::trim_end(hs)))] {
            if let Ok(x) = r {
                c.sub(f, hs, x);
            }
        }
    }
    if h.len() >= 2 && h.trim_ascii().len() < h.len() && !h.trim_ascii().is_empty() {
        c.rep.nontrivial(|| format!("whitespace trim of {}", show(h)));
    }
}

pub fn run(tier: Tier, rep: &mut Report) -> (String, String) {
    let th = n_threads(tier);
    let mut bounds = String::new();
    // (a) pattern families
    let (hl, nl) = tier.pick((8, 3), (9, 4), (2, 1));
    let hs = strings_over(&["a", "b", "ñ"], hl);
    let ns = strings_over(&["a", "b", "ñ"], nl);
    bounds += &format!("strings over [a,b,ñ]: inputs <= {hl} atoms ({}), patterns <= {nl} atoms ({}); ", hs.len(), ns.len());
    rep.merge(par_each(&hs, th, |h, r| {
        for n in &ns {
            one_pair(r, h.as_bytes(), n.as_bytes());
        }
        r.sample(|| format!("input {h:?} x all {} patterns", ns.len()));
    }));
    let (hl, nl) = tier.pick((6, 3), (8, 4), (2, 1));
    let alpha: &[u8] = &[0x61, 0x62, 0xFF];
    let hb = bytes_over(alpha, hl);
    let nb = bytes_over(alpha, nl);
    bounds += &format!("bytes over {alpha:02x?}: inputs <= {hl} ({}), patterns <= {nl} ({}); ", hb.len(), nb.len());
    rep.merge(par_each(&hb, th, |h, r| {
        for n in &nb {
            one_pair(r, h, n);
        }
    }));
    // every char of the boundary-complete set as pattern / content
    let cs: Vec<char> = if tier == Tier::Miri { char_set(tier).into_iter().step_by(15).collect() } else { char_set(tier) };
    bounds += &format!("for every char c of the boundary-complete set ({}): inputs [c+a, a+c, c+c+a+c, c] x patterns [c, a, c+a, c+c]; ", cs.len());
    rep.merge(par_each(&cs, th, |c, r| {
        let hs = [format!("{c}a"), format!("a{c}"), format!("{c}{c}a{c}"), format!("{c}")];
        let ns = [c.to_string(), "a".to_string(), format!("{c}a"), format!("{c}{c}")];
        for h in &hs {
            for n in &ns {
                one_pair(r, h.as_bytes(), n.as_bytes());
            }
        }
    }));
    // (b) whitespace: all byte strings of length <= 2 over all 256 values (complete byte coverage) ...
    let all: Vec<u8> = (0..=255u8).collect();
    let ws2 = bytes_over(&all, if tier == Tier::Miri { 1 } else { 2 });
    bounds += &format!("whitespace: all byte strings of length <= 2 over all 256 byte values ({}); ", ws2.len());
    rep.merge(par_each(&ws2, th, |h, r| one_ws(r, h)));
    // ... and longer strings over every ASCII control/whitespace class
    let wsa: &[u8] = &[b'\t', b'\n', 0x0B, 0x0C, b'\r', 0x1C, 0x1F, b' ', 0x7F, 0x85, 0xA0, b'a'];
    let wl = tier.pick(4, 6, 1);
    let wsn = bytes_over(wsa, wl);
    bounds += &format!("byte strings <= {wl} over {wsa:02x?} ({}); ", wsn.len());
    rep.merge(par_each(&wsn, th, |h, r| {
        one_ws(r, h);
        r.sample(|| format!("whitespace input {}", show(h)));
    }));
    let wss = strings_over(&[" ", "\t", "\n", "\r", "\x0B", "\x0C", "\u{85}", "\u{A0}", "\u{2003}", "a", "ñ"], tier.pick(4, 5, 1));
    bounds += &format!("strings over [space,\\t,\\n,\\r,\\x0B,\\x0C,U+0085,U+00A0,U+2003,a,ñ] ({}); ", wss.len());
    rep.merge(par_each(&wss, th, |h, r| one_ws(r, h.as_bytes())));
    // (c) long inputs and patterns (8..=17 bytes, t ..=33): the pattern is a prefix / suffix of the input, the same with one
    // position changed, and the whole input - the shapes on which a word-at-a-time comparison differs from a byte loop;
    // long white-space runs around a long core
    if tier != Tier::Miri {
        let maxl = tier.pick(17, 33, 0);
        let mut pairs: Vec<(Vec<u8>, Vec<u8>)> = Vec::new();
        for len in 8..=maxl {
            let base: Vec<u8> = (0..len).map(|i| b'b' + (i % 3) as u8).collect();
            for pl in [8, len - 1, len].into_iter().filter(|&x| x >= 8 && x <= len) {
                for pat in [base[..pl].to_vec(), base[len - pl..].to_vec()] {
                    pairs.push((base.clone(), pat.clone()));
                    for p in 0..pl {
                        let mut o = pat.clone();
                        o[p] = if p % 2 == 0 { b'a' } else { b'z' };
                        pairs.push((base.clone(), o));
                    }
                }
            }
            // a long pattern repeated (trim_*_matches) with a partial repetition left over
            let unit: Vec<u8> = base[..8].to_vec();
            let mut rep3 = unit.repeat(3);
            rep3.extend_from_slice(&unit[..5]);
            pairs.push((rep3.clone(), unit.clone()));
            let mut pre = unit[3..].to_vec();
            pre.extend(unit.repeat(2));
            pairs.push((pre, unit));
        }
        bounds += &format!("long family: inputs of 8..={maxl} bytes x patterns that are a prefix / suffix of length 8, len-1, len, each also with one position changed ({} pairs); ", pairs.len());
        rep.merge(par_each(&pairs, th, |(h, n), r| one_pair(r, h, n)));
        let mut wsl: Vec<Vec<u8>> = Vec::new();
        for lead in [0usize, 1, 7, 8, 9, 16] {
            for trail in [0usize, 1, 7, 8, 9, 16] {
                for core in [&b"a"[..], &b"abcdefgh"[..], &b"ab cd	efgh ij"[..], &b""[..]] {
                    let mut v = vec![b' '; lead];
                    if lead > 2 { v[1] = b'\t'; v[lead - 1] = 0x0C; }
                    v.extend_from_slice(core);
                    v.extend(std::iter::repeat(b'\n').take(trail));
                    wsl.push(v);
                }
            }
        }
        bounds += &format!("white-space runs of 0,1,7,8,9,16 bytes on either side of 4 cores ({}); ", wsl.len());
        rep.merge(par_each(&wsl, th, |h, r| one_ws(r, h)));
    }
    rep.traces = rep.transitions;
    (
        "state = (input, pattern) pair or whitespace input; transition = one starts/ends_with, strip_prefix/suffix, trim_*_matches or trim* call (bytes_* with [u8],[u8;N],str,char patterns; string::* with str,char) compared by address and length with <[u8]>::starts_with/ends_with/strip_prefix/strip_suffix, a repeat-strip model cross-checked against str::trim_start_matches/trim_end_matches, and trim_ascii/trim_ascii_start/trim_ascii_end; two-sided trim_matches must equal one of the two compositions of the one-sided trims; non-trivial = a run of whole repetitions is trimmed and a partial repetition follows it / an input of >= 2 bytes whose whitespace trim is a proper non-empty part".into(),
        bounds,
    )
}

pub fn replay(case: &str, rep: &mut Report) {
    let p: Vec<&str> = case.split('|').collect();
    let h = unhex(p[0]);
    let n = unhex(p.get(1).copied().unwrap_or(""));
    if n == b"<ws>" {
        one_ws(rep, &h)
    } else {
        one_pair(rep, &h, &n)
    }
}
