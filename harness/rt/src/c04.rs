//! C04 — pattern search = first / last occurrence (E1: all haystack x needle pairs over small alphabets).
use crate::common::*;
use konst::slice as ks;
use konst::string as kst;

fn naive_find(h: &[u8], n: &[u8]) -> Option<usize> {
    if n.len() > h.len() {
        return None;
    }
    (0..=h.len() - n.len()).find(|&i| &h[i..i + n.len()] == n)
}
fn naive_rfind(h: &[u8], n: &[u8]) -> Option<usize> {
    if n.len() > h.len() {
        return None;
    }
    (0..=h.len() - n.len()).rev().find(|&i| &h[i..i + n.len()] == n)
}

struct Ctx<'a> {
    rep: &'a mut Report,
    h: &'a [u8],
    n: &'a [u8],
    kind: &'static str,
}
impl Ctx<'_> {
    fn cmp<X: PartialEq + std::fmt::Debug + std::hash::Hash>(&mut self, func: &str, exp: X, obs: Result<X, String>) {
        self.rep.transitions += 1;
        self.rep.evaluations += 1;
        self.rep.outcome(&(func, obs.as_ref().ok()));
        let bad = match &obs {
            Ok(o) => *o != exp,
            Err(_) => true,
        };
        if bad {
            let replay = format!("{}|{}", hex(self.h), hex(self.n));
            let show = |b: &[u8]| match std::str::from_utf8(b) {
                Ok(s) => format!("{s:?}"),
                Err(_) => format!("{b:02x?}"),
            };
            let case = format!("{}[{} pattern]({}, {})", func, self.kind, show(self.h), show(self.n));
            let o = match obs {
                Ok(o) => format!("{o:?}"),
                Err(p) => format!("panic: {p}"),
            };
            self.rep.violation(viol("search", func, replay, case, format!("{exp:?}"), o));
        }
    }
}

fn lo(h: &[u8], r: Option<&[u8]>) -> Option<Loc> {
    r.map(|x| loc(h, x))
}
fn sub(h: &[u8], a: usize, b: usize) -> Loc {
    if a >= b {
        Loc::Empty
    } else {
        Loc::At(a, b - a)
    }
}

/// all bytes_* search functions with one pattern value of kind P
macro_rules! bytes_fns {
    ($c:ident, $h:ident, $n:ident, $pat:expr, $first:ident, $last:ident) => {{
        let nl = $n.len();
        let hl = $h.len();
        $c.cmp("bytes_find", $first, catch(|| ks::bytes_find($h, $pat)));
        $c.cmp("bytes_contain", $first.is_some(), catch(|| ks::bytes_contain($h, $pat)));
        $c.cmp("bytes_find_skip", $first.map(|p| sub($h, p + nl, hl)), catch(|| lo($h, ks::bytes_find_skip($h, $pat))));
        $c.cmp("bytes_find_keep", $first.map(|p| sub($h, p, hl)), catch(|| lo($h, ks::bytes_find_keep($h, $pat))));
        if nl != 0 {
            $c.cmp("bytes_rfind", $last, catch(|| ks::bytes_rfind($h, $pat)));
            $c.cmp("bytes_rcontain", $last.is_some(), catch(|| ks::bytes_rcontain($h, $pat)));
            $c.cmp("bytes_rfind_skip", $last.map(|p| sub($h, 0, p)), catch(|| lo($h, ks::bytes_rfind_skip($h, $pat))));
            $c.cmp("bytes_rfind_keep", $last.map(|p| sub($h, 0, p + nl)), catch(|| lo($h, ks::bytes_rfind_keep($h, $pat))));
        }
    }};
}

macro_rules! str_fns {
    ($c:ident, $hs:ident, $nl:expr, $pat:expr, $first:ident, $last:ident) => {{
        let nl = $nl;
        let hb = $hs.as_bytes();
        let hl = hb.len();
        let los = |r: Option<&str>| r.map(|x| loc(hb, x.as_bytes()));
        $c.cmp("string::find", $first, catch(|| kst::find($hs, $pat)));
        $c.cmp("string::contains", $first.is_some(), catch(|| kst::contains($hs, $pat)));
        $c.cmp("string::find_skip", $first.map(|p| sub(hb, p + nl, hl)), catch(|| los(kst::find_skip($hs, $pat))));
        $c.cmp("string::find_keep", $first.map(|p| sub(hb, p, hl)), catch(|| los(kst::find_keep($hs, $pat))));
        $c.cmp(
            "string::split_once",
            $first.map(|p| (sub(hb, 0, p), sub(hb, p + nl, hl))),
            catch(|| kst::split_once($hs, $pat).map(|(l, r)| (loc(hb, l.as_bytes()), loc(hb, r.as_bytes())))),
        );
        $c.cmp(
            "string::split_once(content)",
            $hs.split_once($pat).map(|(a, b)| (a.to_string(), b.to_string())),
            catch(|| kst::split_once($hs, $pat).map(|(a, b)| (a.to_string(), b.to_string()))),
        );
        if nl != 0 {
            $c.cmp("string::rfind", $last, catch(|| kst::rfind($hs, $pat)));
            $c.cmp("string::rcontains", $last.is_some(), catch(|| kst::rcontains($hs, $pat)));
            $c.cmp("string::rfind_skip", $last.map(|p| sub(hb, 0, p)), catch(|| los(kst::rfind_skip($hs, $pat))));
            $c.cmp("string::rfind_keep", $last.map(|p| sub(hb, 0, p + nl)), catch(|| los(kst::rfind_keep($hs, $pat))));
            $c.cmp(
                "string::rsplit_once",
                $last.map(|p| (sub(hb, 0, p), sub(hb, p + nl, hl))),
                catch(|| kst::rsplit_once($hs, $pat).map(|(l, r)| (loc(hb, l.as_bytes()), loc(hb, r.as_bytes())))),
            );
            $c.cmp(
                "string::rsplit_once(content)",
                $hs.rsplit_once($pat).map(|(a, b)| (a.to_string(), b.to_string())),
                catch(|| kst::rsplit_once($hs, $pat).map(|(a, b)| (a.to_string(), b.to_string()))),
            );
        }
        // C01 monitor on returned strings
        for (f, r) in [
            ("string::find_skip", catch(|| kst::find_skip($hs, $pat))),
            ("string::find_keep", catch(|| kst::find_keep($hs, $pat))),
            ("string::rfind_skip", catch(|| kst::rfind_skip($hs, $pat))),
            ("string::rfind_keep", catch(|| kst::rfind_keep($hs, $pat))),
        ] {
            if let Ok(Some(x)) = r {
                if let Err(e) = substr_oracle($hs, x, $c.rep) {
                    let replay = format!("{}|{}", hex($c.h), hex($c.n));
                    $c.rep.violation(viol("search", f, replay, format!("{f}({:?}, ..)", $hs), "sub-string on char boundaries".into(), e));
                }
            }
        }
    }};
}

macro_rules! array_pat {
    ($c:ident, $h:ident, $n:ident, $first:ident, $last:ident; $($N:literal)*) => {
        match $n.len() {
            $($N => { let arr: [u8; $N] = <[u8; $N]>::try_from($n).unwrap(); $c.kind = "[u8;N]"; bytes_fns!($c, $h, $n, &arr, $first, $last); })*
            _ => {}
        }
    };
}

pub fn one_pair(rep: &mut Report, h: &[u8], n: &[u8]) {
    let first = naive_find(h, n);
    let last = naive_rfind(h, n);
    let mut c = Ctx { rep, h, n, kind: "[u8]" };
    c.rep.states += 1;
    // machinery self-check: the boring model against std where std defines the same thing
    if let (Ok(hs), Ok(ns)) = (std::str::from_utf8(h), std::str::from_utf8(n)) {
        if hs.find(ns) != first || hs.rfind(ns) != last {
            c.rep.machinery_errors.push(format!("naive search model disagrees with std on {hs:?} / {ns:?}"));
        }
    }
    bytes_fns!(c, h, n, n, first, last);
    array_pat!(c, h, n, first, last; 0 1 2 3 4 5 6);
    if let Ok(ns) = std::str::from_utf8(n) {
        c.kind = "str";
        bytes_fns!(c, h, n, ns, first, last);
        let mut it = ns.chars();
        let ch = match (it.next(), it.next()) {
            (Some(ch), None) => Some(ch),
            _ => None,
        };
        if let Some(ch) = ch {
            c.kind = "char";
            bytes_fns!(c, h, n, &ch, first, last);
        }
        if let Ok(hs) = std::str::from_utf8(h) {
            c.kind = "str";
            str_fns!(c, hs, n.len(), ns, first, last);
            if let Some(ch) = ch {
                c.kind = "char";
                str_fns!(c, hs, n.len(), ch, first, last);
            }
        }
    }
    // non-trivial: the needle occurs and a partial match of length >= 2 fails before the first occurrence
    if let Some(p) = first {
        if n.len() >= 3 && (0..p).any(|i| h[i..].iter().zip(n).take_while(|(a, b)| a == b).count() >= 2) {
            c.rep.nontrivial(|| format!("needle {:?} in {:?} (failed partial match before the occurrence at {p})", String::from_utf8_lossy(n), String::from_utf8_lossy(h)));
        }
    }
}

fn xorshift(s: &mut u64) -> u64 {
    *s ^= *s << 13;
    *s ^= *s >> 7;
    *s ^= *s << 17;
    *s
}

pub fn run(tier: Tier, rep: &mut Report) -> (String, String) {
    // (alphabet, max haystack len, max needle len)
    let fams: Vec<(&[u8], usize, usize)> = match tier {
        Tier::Quick => vec![(b"ab", 11, 6), (b"abc", 7, 4), (&[0x61, 0xC3, 0xB1, 0xFF], 5, 3)],
        Tier::Thorough => vec![(b"ab", 14, 7), (b"abc", 9, 5), (&[0x61, 0xC3, 0xB1, 0xFF], 7, 4)],
        Tier::Miri => vec![(b"ab", 3, 2), (&[0x61, 0xC3, 0xB1], 2, 2)],
    };
    let mut bounds = String::new();
    for (alpha, hl, nl) in &fams {
        let hs = bytes_over(alpha, *hl);
        let ns = bytes_over(alpha, *nl);
        bounds += &format!("bytes over {:02x?}: haystacks <= {} ({}), needles <= {} ({}); ", alpha, hl, hs.len(), nl, ns.len());
        let r = par_each(&hs, n_threads(tier), |h, r| {
            for n in &ns {
                one_pair(r, h, n);
            }
            r.sample(|| format!("haystack {:?} x all {} needles", String::from_utf8_lossy(h), ns.len()));
        });
        rep.merge(r);
    }
    // multi-byte strings (str and char patterns)
    let (sl, nl) = tier.pick((5, 3), (7, 4), (2, 1));
    let hs = strings_over(&["a", "ñ", "€"], sl);
    let ns = strings_over(&["a", "ñ", "€"], nl);
    bounds += &format!("strings over [a,ñ,€]: haystacks <= {sl} atoms ({}), needles <= {nl} atoms ({}); ", hs.len(), ns.len());
    let r = par_each(&hs, n_threads(tier), |h, r| {
        for n in &ns {
            one_pair(r, h.as_bytes(), n.as_bytes());
        }
    });
    rep.merge(r);
    // every char of the boundary-complete set next to ASCII text: any char-width / lead-byte dependent stepping in the
    // string-level search (str and char patterns) must not skip a match that starts right after such a char
    let cs: Vec<char> = if tier == Tier::Miri { char_set(tier).into_iter().step_by(15).collect() } else { char_set(tier) };
    bounds += &format!("for every char c of the boundary-complete set ({}): haystacks [c+ab, a+c+b, c+c+a, ab+c, c] x needles [a, ab, b, c, c+a, a+c]; ", cs.len());
    rep.merge(par_each(&cs, n_threads(tier), |c, r| {
        let hs = [format!("{c}ab"), format!("a{c}b"), format!("{c}{c}a"), format!("ab{c}"), format!("{c}")];
        let ns = ["a".to_string(), "ab".to_string(), "b".to_string(), c.to_string(), format!("{c}a"), format!("a{c}")];
        for h in &hs {
            for n in &ns {
                one_pair(r, h.as_bytes(), n.as_bytes());
            }
        }
    }));
    // long needles and haystacks (needle 8..=17 bytes, t ..=33): the needle embedded at every offset of a filler, the same
    // needle with one position changed (a near miss that must not match), a needle running over the end, and two
    // overlapping occurrences - the shapes on which an unrolled / word-at-a-time matcher differs from a byte loop
    if tier != Tier::Miri {
        let maxn = tier.pick(17, 33, 0);
        let mut pairs: Vec<(Vec<u8>, Vec<u8>)> = Vec::new();
        for nl in 8..=maxn {
            let needle: Vec<u8> = (0..nl).map(|i| b'b' + (i % 4) as u8).collect();
            for at in [0usize, 1, 3, 7, 8, 9] {
                let mut h = vec![b'a'; at];
                h.extend_from_slice(&needle);
                h.extend_from_slice(b"aa");
                pairs.push((h.clone(), needle.clone()));
                // near misses: one byte of the occurrence changed, at every position
                for p in (0..nl).step_by(if nl > 12 { 2 } else { 1 }) {
                    let mut hh = h.clone();
                    hh[at + p] = b'z';
                    pairs.push((hh, needle.clone()));
                }
                // two occurrences (find vs rfind)
                let mut h2 = h.clone();
                h2.extend_from_slice(&needle);
                pairs.push((h2, needle.clone()));
                // cut off at the end
                pairs.push((h[..at + nl - 1].to_vec(), needle.clone()));
            }
            // self-overlapping long needle: "bcbcbcbc.." in a longer run
            let rep2: Vec<u8> = (0..nl).map(|i| if i % 2 == 0 { b'b' } else { b'c' }).collect();
            let mut run: Vec<u8> = (0..nl + 5).map(|i| if i % 2 == 0 { b'b' } else { b'c' }).collect();
            pairs.push((run.clone(), rep2.clone()));
            run[nl / 2] = b'x';
            pairs.push((run, rep2));
        }
        // one-byte needles in long haystacks over the needle, its neighbours in value and a filler
        let ls: Vec<Vec<u8>> = bytes_over(&[b',', b'-', b'a'], tier.pick(9, 10, 0)).into_iter().filter(|h| h.len() >= 8).collect();
        for h in &ls {
            pairs.push((h.clone(), vec![b',']));
            pairs.push((h.clone(), vec![b'-']));
        }
        bounds += &format!("long family: needles of 8..={maxn} bytes embedded at offsets 0,1,3,7,8,9, near misses at every position, double and cut-off occurrences, self-overlapping runs, one-byte needles [',', '-'] in all haystacks of 8..=9 bytes (t 10) over [',', '-', 'a'] ({} pairs); ", pairs.len());
        rep.merge(par_each(&pairs, n_threads(tier), |(h, n), r| one_pair(r, h, n)));
    }
    rep.traces = rep.transitions;

    // ---- labelled sampling supplement (NOT the deciding step): random longer inputs
    if tier != Tier::Miri {
        let seed: u64 = std::env::var("VERIF_SEED").ok().and_then(|s| s.parse().ok()).unwrap_or(1);
        let mut st = seed.wrapping_mul(0x9E37_79B9_7F4A_7C15) | 1;
        let mut sup = Report::default();
        let count = tier.pick(2000, 20000, 0);
        for _ in 0..count {
            let len = 20 + (xorshift(&mut st) % 181) as usize;
            let h: Vec<u8> = (0..len).map(|_| b'a' + (xorshift(&mut st) % 2) as u8).collect();
            let nl = 1 + (xorshift(&mut st) % 9) as usize;
            let n: Vec<u8> = if xorshift(&mut st) % 4 == 0 {
                (0..nl).map(|_| b'a' + (xorshift(&mut st) % 2) as u8).collect()
            } else {
                let at = (xorshift(&mut st) as usize) % (len - nl.min(len - 1));
                h[at..(at + nl).min(len)].to_vec()
            };
            one_pair(&mut sup, &h, &n);
        }
        rep.notes.push(format!(
            "sampling supplement (labelled, not exhaustive, seed {seed}): {count} random haystacks of length 20..=200 over {{a,b}} with needles of length 1..=9 mostly cut from them: {} calls, {} violations",
            sup.transitions, sup.violations_total
        ));
        let (v, vt, me) = (std::mem::take(&mut sup.violations), sup.violations_total, std::mem::take(&mut sup.machinery_errors));
        let kept = v.len() as u64;
        for x in v {
            rep.violation(x);
        }
        rep.violations_total += vt - kept;
        rep.machinery_errors.extend(me);
    }
    (
        "state = (haystack, needle) pair; transition = one search call (bytes_find/rfind/contain/rcontain/find_skip/find_keep/rfind_skip/rfind_keep with [u8], [u8;N], str and char patterns; string::find/rfind/contains/rcontains/find_skip/find_keep/rfind_skip/rfind_keep/split_once/rsplit_once with str and char patterns) compared with a naive window search (itself cross-checked against str::find/rfind) by offset and by address; non-trivial = needle of length >= 3 occurs and a partial match of length >= 2 fails before its first occurrence (exercises the restart logic)".into(),
        bounds,
    )
}

pub fn replay(case: &str, rep: &mut Report) {
    let p: Vec<&str> = case.split('|').collect();
    one_pair(rep, &unhex(p[0]), &unhex(p.get(1).copied().unwrap_or("")));
}
