//! C03 — string slicing = std incl. char-boundary rules (E1).
use crate::common::*;
use konst::string as kst;

const ATOMS: &[&str] = &["a", "ñ", "€", "😀"];

fn clamp_str(s: &str, a: usize, b: usize) -> Result<Loc, ()> {
    // Err(()) = must panic: an in-range index falls inside a multi-byte character
    let len = s.len();
    for i in [a, b] {
        if i < len && !s.is_char_boundary(i) {
            return Err(());
        }
    }
    let e = b.min(len);
    let st = a.min(e);
    Ok(if e == st { Loc::Empty } else { Loc::At(st, e - st) })
}

struct Ctx<'a> {
    rep: &'a mut Report,
    s: &'a str,
    a: usize,
    b: usize,
}
impl Ctx<'_> {
    /// exp: Ok(value) or Err(()) meaning "must panic"
    fn cmp<X: PartialEq + std::fmt::Debug + std::hash::Hash>(&mut self, func: &str, exp: Result<X, ()>, obs: Result<X, String>) {
        self.rep.transitions += 1;
        self.rep.evaluations += 1;
        self.rep.outcome(&(func, obs.as_ref().ok()));
        let ok = match (&exp, &obs) {
            (Ok(e), Ok(o)) => e == o,
            (Err(()), Err(_)) => true,
            _ => false,
        };
        if !ok {
            let replay = format!("{}|{}|{}", hexs(self.s), self.a, self.b);
            let case = format!("{}({:?}, {}, {})", func, self.s, self.a, self.b);
            let e = match exp {
                Ok(e) => format!("{e:?}"),
                Err(()) => "panic (index inside a multi-byte char)".to_string(),
            };
            let o = match obs {
                Ok(o) => format!("{o:?}"),
                Err(p) => format!("panic: {p}"),
            };
            self.rep.violation(viol("str-index", func, replay, case, e, o));
        }
    }
    fn sub(&mut self, func: &str, r: &str) {
        if let Err(e) = substr_oracle(self.s, r, self.rep) {
            let replay = format!("{}|{}|{}", hexs(self.s), self.a, self.b);
            self.rep.violation(viol("str-index", func, replay, format!("{}({:?},{},{})", func, self.s, self.a, self.b), "sub-string of the argument on char boundaries".into(), e));
        }
    }
}

fn one_index(rep: &mut Report, s: &str, i: usize) {
    let mut c = Ctx { rep, s, a: i, b: usize::MAX };
    c.cmp("is_char_boundary", Ok(s.is_char_boundary(i)), catch(|| kst::is_char_boundary(s, i)));
    c.cmp("get_from", Ok(s.get(i..).map(|x| loc_str(s, x))), catch(|| kst::get_from(s, i).map(|x| loc_str(s, x))));
    c.cmp("get_up_to", Ok(s.get(..i).map(|x| loc_str(s, x))), catch(|| kst::get_up_to(s, i).map(|x| loc_str(s, x))));
    c.cmp("str_from", clamp_str(s, i, usize::MAX), catch(|| loc_str(s, kst::str_from(s, i))));
    c.cmp("str_up_to", clamp_str(s, 0, i), catch(|| loc_str(s, kst::str_up_to(s, i))));
    let e = match (clamp_str(s, 0, i), clamp_str(s, i, usize::MAX)) {
        (Ok(l), Ok(r)) => Ok((l, r)),
        _ => Err(()),
    };
    c.cmp(
        "split_at",
        e,
        catch(|| {
            let (l, r) = kst::split_at(s, i);
            (loc_str(s, l), loc_str(s, r))
        }),
    );
    if s.is_char_boundary(i) {
        let (l, r) = s.split_at(i);
        c.cmp("split_at(content)", Ok((l.to_string(), r.to_string())), catch(|| {
            let (l, r) = kst::split_at(s, i);
            (l.to_string(), r.to_string())
        }));
    }
    // C01 oracle on everything that returned
    if let Ok(Some(x)) = catch(|| kst::get_from(s, i)) { c.sub("get_from", x) }
    if let Ok(Some(x)) = catch(|| kst::get_up_to(s, i)) { c.sub("get_up_to", x) }
    if let Ok(x) = catch(|| kst::str_from(s, i)) { c.sub("str_from", x) }
    if let Ok(x) = catch(|| kst::str_up_to(s, i)) { c.sub("str_up_to", x) }
    if let Ok((l, r)) = catch(|| kst::split_at(s, i)) { c.sub("split_at.0", l); c.sub("split_at.1", r) }
}

fn one_pair(rep: &mut Report, s: &str, a: usize, b: usize) {
    let mut c = Ctx { rep, s, a, b };
    c.cmp("get_range", Ok(s.get(a..b).map(|x| loc_str(s, x))), catch(|| kst::get_range(s, a, b).map(|x| loc_str(s, x))));
    c.cmp("str_range", clamp_str(s, a, b), catch(|| loc_str(s, kst::str_range(s, a, b))));
    if let Some(x) = s.get(a..b) {
        c.cmp("str_range(content)", Ok(x.to_string()), catch(|| kst::str_range(s, a, b).to_string()));
    }
    if let Ok(Some(x)) = catch(|| kst::get_range(s, a, b)) { c.sub("get_range", x) }
    if let Ok(x) = catch(|| kst::str_range(s, a, b)) { c.sub("str_range", x) }
}

fn indices(len: usize) -> Vec<usize> {
    if cfg!(miri) {
        let mut v: Vec<usize> = (0..=len + 1).collect();
        v.push(usize::MAX);
        return v;
    }
    let mut v: Vec<usize> = (0..=len + 2).collect();
    v.extend_from_slice(&[isize::MAX as usize, isize::MAX as usize + 1, usize::MAX - 1, usize::MAX]);
    v
}

fn one_string(s: &String, rep: &mut Report) {
    let idx = indices(s.len());
    for &i in &idx {
        one_index(rep, s, i);
        rep.states += 1;
        if i < s.len() && !s.is_char_boundary(i) {
            rep.nontrivial(|| format!("{s:?} index {i} (inside a multi-byte char)"));
        }
    }
    for &a in &idx {
        for &b in &idx {
            one_pair(rep, s, a, b);
            rep.states += 1;
        }
    }
    rep.sample(|| format!("{s:?} x indices {idx:?} and all pairs"));
}

pub fn run(tier: Tier, rep: &mut Report) -> (String, String) {
    let n = tier.pick(4, 5, 1);
    let strings = strings_over(ATOMS, n);
    let r = par_each(&strings, n_threads(tier), one_string);
    rep.merge(r);
    // family 2: every char of a boundary-complete set, alone and between ASCII neighbours,
    // so that every UTF-8 lead byte and every continuation byte value 0x80..=0xBF occurs at every role
    let chars = if tier == Tier::Miri { (if miri_deep() { vec!['ñ', '\u{7FF}', '\u{800}', '€', '\u{FFFF}', '😀', '\u{10FFFF}'] } else { vec!['ñ', '€', '😀'] }) } else { crate::common::char_set(tier) };
    let ctx: Vec<String> = chars.iter().flat_map(|c| if tier == Tier::Miri { vec![format!("a{c}b")] } else { vec![c.to_string(), format!("a{c}b"), format!("{c}{c}")] }).collect();
    let nctx = ctx.len();
    let r = par_each(&ctx, n_threads(tier), one_string);
    rep.merge(r);
    rep.traces = rep.transitions;
    (
        "state = (string, index) or (string, start, end); transition = one konst::string slicing call, compared with str::get / is_char_boundary / split_at by address and length; clamping variants: clamp to len, panic iff an in-range index is not a char boundary; non-trivial = index strictly inside a multi-byte character".into(),
        format!("strings = all concatenations of <= {n} atoms from {ATOMS:?} ({} strings); indices 0..=len+2 U {{isize::MAX, isize::MAX+1, usize::MAX-1, usize::MAX}}, all pairs; plus {} single-char context strings (c, a+c+b, c+c) for every c in the boundary-complete char set ({} chars: {})", strings.len(), nctx, chars.len(), crate::common::char_set_desc(tier)),
    )
}

pub fn replay(case: &str, rep: &mut Report) {
    let p: Vec<&str> = case.split('|').collect();
    let s = unhexs(p[0]);
    let (a, b): (usize, usize) = (p[1].parse().unwrap(), p[2].parse().unwrap());
    if b == usize::MAX {
        one_index(rep, &s, a);
    }
    one_pair(rep, &s, a, b);
}
