//! C07 — chars / char_indices / char conversions = std.
//! E1 complete: encode_utf8 for every char, from_u32 for every u32 < 0x120000 + boundaries.
//! E2 tree: every next/next_back history of chars / char_indices (+rev types) on all strings up to a bound.
use crate::common::*;
use crate::impl_kiter;
use crate::tree::*;
use konst::string as kst;

impl_kiter! {impl['a] kst::Chars<'a>, char}
impl_kiter! {impl['a] kst::RChars<'a>, char}
impl_kiter! {impl['a] kst::CharIndices<'a>, (usize, char)}
impl_kiter! {impl['a] kst::RCharIndices<'a>, (usize, char)}

fn conversions(rep: &mut Report, tier: Tier) {
    // encode_utf8: every char (Miri: edges only)
    let step = if tier == Tier::Miri { 4099 } else { 1 };
    let mut n = 0u32;
    while n <= 0x10FFFF {
        if let Some(c) = char::from_u32(n) {
            rep.states += 1;
            rep.transitions += 2;
            let mut buf = [0u8; 4];
            let exp = c.encode_utf8(&mut buf).as_bytes().to_vec();
            // both views are compared as bytes: a `str` that is not UTF-8 must never be copied as a String or formatted
            let r = catch(|| {
                let e = konst::chr::encode_utf8(c);
                (e.as_bytes().to_vec(), e.as_str().as_bytes().to_vec())
            });
            let ok = matches!(&r, Ok((b, s)) if *b == exp && *s == exp);
            if !ok {
                rep.violation(viol("char-conv", "encode_utf8", format!("enc|{n}"), format!("encode_utf8({c:?} = U+{n:04X})"), format!("as_bytes = as_str bytes = {exp:02x?}"), format!("(as_bytes, as_str bytes) = {r:02x?}")));
            }
            if n < 4 {
                rep.sample(|| format!("encode_utf8(U+{n:04X})"));
            }
        }
        n += step;
    }
    // from_u32: every n < 0x120000 plus boundary values
    let mut cases: Vec<u32> = if tier == Tier::Miri { (0..0x120000).step_by(4099).collect() } else { (0..0x120000).collect() };
    cases.extend([0xD7FF, 0xD800, 0xDFFF, 0xE000, 0x10FFFF, 0x110000, 0x7FFF_FFFF, 0x8000_0000, u32::MAX - 1, u32::MAX]);
    cases.extend((u32::MAX - 0x7FF)..=u32::MAX);
    for n in cases {
        rep.states += 1;
        rep.transitions += 1;
        let exp = char::from_u32(n);
        // compared and rendered as numbers: a `char` outside the scalar values must not reach Debug / UTF-8 encoding
        let r = catch(|| konst::chr::from_u32(n).map(|c| c as u32));
        rep.outcome(&r.as_ref().ok().map(|x| x.is_some()));
        if r.as_ref().ok() != Some(&exp.map(|c| c as u32)) {
            let obs = match &r {
                Ok(Some(v)) if char::from_u32(*v).is_none() => format!("Ok(Some('\\u{{{v:x}}}')) - not a Unicode scalar value"),
                Ok(Some(v)) => format!("Ok(Some({:?}))", char::from_u32(*v).unwrap()),
                Ok(None) => "Ok(None)".to_string(),
                Err(p) => format!("Err({p:?})"),
            };
            rep.violation(viol("char-conv", "from_u32", format!("u32|{n}"), format!("chr::from_u32({n:#x})"), format!("{exp:?}"), obs));
        }
        if exp.is_none() && n < 0x120000 {
            rep.nontrivial(|| format!("from_u32({n:#x}) (not a scalar value)"));
        }
    }
}

fn tree_ctx<'a>(rep: &'a mut Report, describe: &'a dyn Fn() -> (String, String), s: &str, only: &Option<Vec<u8>>) -> TreeCtx<'a> {
    TreeCtx {
        rep,
        engine: "char-iter",
        describe,
        only: only.clone(),
        max_depth: s.chars().count() + 2,
        nodes: 0,
        leaves: 0,
        depth_is_bound: false,
    }
}

pub fn one_string(rep: &mut Report, s: &str, only_kind: Option<&str>, only: &Option<Vec<u8>>) {
    let want = |k: &str| only_kind.map_or(true, |o| o == k);
    let l = |x: &str| (loc_str(s, x), x.len());
    let id_c = |c: &char| *c;
    let id_ic = |c: &(usize, char)| *c;
    let mut path = Vec::new();
    if want("chars") {
        let d = || (format!("{}|{}", "chars", hexs(s)), format!("{}({s:?})", "chars"));
        let mut c = tree_ctx(rep, &d, s, only);
        explore(&mut c, kst::chars(s), RefIt { it: s.chars(), reversed: false }, &id_c, &id_c, &|k: &kst::Chars<'_>| Some(l(k.as_str())), &|r: &RefIt<std::str::Chars<'_>>| Some(l(r.it.as_str())), &mut path);
    }
    if want("chars.rev") {
        let d = || (format!("{}|{}", "chars.rev", hexs(s)), format!("{}({s:?})", "chars.rev"));
        let mut c = tree_ctx(rep, &d, s, only);
        explore(&mut c, kst::chars(s).rev(), RefIt { it: s.chars(), reversed: true }, &id_c, &id_c, &|_k: &kst::RChars<'_>| None::<(Loc, usize)>, &|_r: &RefIt<std::str::Chars<'_>>| None, &mut path);
    }
    if want("chars.rev.rev") {
        let d = || (format!("{}|{}", "chars.rev.rev", hexs(s)), format!("{}({s:?})", "chars.rev.rev"));
        let mut c = tree_ctx(rep, &d, s, only);
        explore(&mut c, kst::chars(s).rev().rev(), RefIt { it: s.chars(), reversed: false }, &id_c, &id_c, &|k: &kst::Chars<'_>| Some(l(k.as_str())), &|r: &RefIt<std::str::Chars<'_>>| Some(l(r.it.as_str())), &mut path);
    }
    if want("char_indices") {
        let d = || (format!("{}|{}", "char_indices", hexs(s)), format!("{}({s:?})", "char_indices"));
        let mut c = tree_ctx(rep, &d, s, only);
        explore(&mut c, kst::char_indices(s), RefIt { it: s.char_indices(), reversed: false }, &id_ic, &id_ic, &|k: &kst::CharIndices<'_>| Some(l(k.as_str())), &|r: &RefIt<std::str::CharIndices<'_>>| Some(l(r.it.as_str())), &mut path);
    }
    if want("char_indices.rev") {
        let d = || (format!("{}|{}", "char_indices.rev", hexs(s)), format!("{}({s:?})", "char_indices.rev"));
        let mut c = tree_ctx(rep, &d, s, only);
        explore(&mut c, kst::char_indices(s).rev(), RefIt { it: s.char_indices(), reversed: true }, &id_ic, &id_ic, &|_k: &kst::RCharIndices<'_>| None::<(Loc, usize)>, &|_r: &RefIt<std::str::CharIndices<'_>>| None, &mut path);
    }
    if want("char_indices.rev.rev") {
        let d = || (format!("{}|{}", "char_indices.rev.rev", hexs(s)), format!("{}({s:?})", "char_indices.rev.rev"));
        let mut c = tree_ctx(rep, &d, s, only);
        explore(&mut c, kst::char_indices(s).rev().rev(), RefIt { it: s.char_indices(), reversed: false }, &id_ic, &id_ic, &|k: &kst::CharIndices<'_>| Some(l(k.as_str())), &|r: &RefIt<std::str::CharIndices<'_>>| Some(l(r.it.as_str())), &mut path);
    }
    if s.chars().count() >= 2 && s.len() > s.chars().count() {
        rep.nontrivial(|| format!("{s:?} (multi-byte, >= 2 chars): all front/back histories"));
    }
}

pub fn run(tier: Tier, rep: &mut Report) -> (String, String) {
    let th = n_threads(tier);
    let mut r0 = Report::default();
    conversions(&mut r0, tier);
    rep.merge(r0);
    let n = tier.pick(6, 7, 2);
    let strings = strings_over(&["a", "ñ", "€", "😀"], n);
    rep.merge(par_each(&strings, th, |s, r| {
        one_string(r, s, None, &None);
        r.sample(|| format!("all next/next_back histories of chars/char_indices (+rev, rev.rev) on {s:?}"));
    }));
    // every char of the boundary-complete set in three contexts (alone, between ASCII, doubled, after a 4-byte char)
    // under the interpreter: the first and last char of every lead-byte class boundary (each between two ASCII chars)
    let chars: Vec<char> = if tier == Tier::Miri { lead_byte_edge_chars() } else { char_set(tier) };
    let ctx: Vec<String> = chars.iter().flat_map(|c| if tier == Tier::Miri { vec![format!("a{c}b")] } else { vec![c.to_string(), format!("a{c}b"), format!("{c}{c}"), format!("😀{c}ñ")] }).collect();
    rep.merge(par_each(&ctx, th, |s, r| one_string(r, s, None, &None)));
    (
        "E1: state = one char / one u32; transition = encode_utf8 (+as_bytes/as_str) or from_u32, compared with char::encode_utf8 / char::from_u32. E2: state = (iterator kind, string, history of next/next_back); every yielded (offset,char) and as_str() (by address) compared with str::chars / char_indices; non-trivial = from_u32 on a non-scalar value; strings with >= 2 chars and at least one multi-byte char".into(),
        format!("encode_utf8: every Unicode scalar value; from_u32: every n < 0x120000 + boundaries up to u32::MAX; iterators: all strings of <= {n} atoms over [a,ñ,€,😀] ({}), plus {} context strings for the boundary-complete char set ({})", strings.len(), ctx.len(), char_set_desc(tier)),
    )
}

pub fn replay(case: &str, rep: &mut Report) {
    let p: Vec<&str> = case.split('|').collect();
    match p[0] {
        "enc" | "u32" => conversions(rep, Tier::Quick),
        kind => {
            let s = unhexs(p[1]);
            let only = Some(p.get(2).copied().unwrap_or("").as_bytes().to_vec());
            one_string(rep, &s, Some(kind), &only);
        }
    }
}
