//! C08 — slice iterators = std double-ended slice iterators (E2 tree: every next/next_back sequence).
use crate::common::*;
use crate::impl_kiter;
use crate::tree::*;
use konst::slice as ks;

impl_kiter! {impl['a, T] ks::Iter<'a, T>, &'a T}
impl_kiter! {impl['a, T] ks::IterRev<'a, T>, &'a T}
impl_kiter! {impl['a, T: Copy] ks::IterCopied<'a, T>, T}
impl_kiter! {impl['a, T: Copy] ks::IterCopiedRev<'a, T>, T}
impl_kiter! {impl['a, T] ks::Windows<'a, T>, &'a [T]}
impl_kiter! {impl['a, T] ks::WindowsRev<'a, T>, &'a [T]}
impl_kiter! {impl['a, T] ks::Chunks<'a, T>, &'a [T]}
impl_kiter! {impl['a, T] ks::ChunksRev<'a, T>, &'a [T]}
impl_kiter! {impl['a, T] ks::RChunks<'a, T>, &'a [T]}
impl_kiter! {impl['a, T] ks::RChunksRev<'a, T>, &'a [T]}
impl_kiter! {impl['a, T] ks::ChunksExact<'a, T>, &'a [T]}
impl_kiter! {impl['a, T] ks::ChunksExactRev<'a, T>, &'a [T]}
impl_kiter! {impl['a, T] ks::RChunksExact<'a, T>, &'a [T]}
impl_kiter! {impl['a, T] ks::RChunksExactRev<'a, T>, &'a [T]}
impl_kiter! {impl['a, T, const N: usize] ks::ArrayChunks<'a, T, N>, &'a [T; N]}
impl_kiter! {impl['a, T, const N: usize] ks::ArrayChunksRev<'a, T, N>, &'a [T; N]}

pub trait El: Clone + PartialEq + std::fmt::Debug + std::hash::Hash + 'static {
    const NAME: &'static str;
    fn make(i: usize) -> Self;
}
impl El for u8 {
    const NAME: &'static str = "u8";
    fn make(i: usize) -> Self {
        i as u8 + 1
    }
}
impl El for () {
    const NAME: &'static str = "unit";
    fn make(_: usize) -> Self {}
}
impl El for String {
    const NAME: &'static str = "String";
    fn make(i: usize) -> Self {
        format!("s{i}")
    }
}
impl El for [u16; 2] {
    const NAME: &'static str = "[u16;2]";
    fn make(i: usize) -> Self {
        [i as u16, 1000 + i as u16]
    }
}

type L = (Loc, usize);
fn l<T>(parent: &[T], x: &[T]) -> L {
    (loc(parent, x), x.len())
}

fn ctx<'a>(rep: &'a mut Report, describe: &'a dyn Fn() -> (String, String), len: usize, only: &Option<Vec<u8>>) -> TreeCtx<'a> {
    TreeCtx {
        rep,
        engine: "slice-iter",
        describe,
        only: only.clone(),
        max_depth: DEPTH_BOUND.with(|d| d.get()).unwrap_or(len.saturating_add(3)),
        nodes: 0,
        leaves: 0,
        depth_is_bound: DEPTH_BOUND.with(|d| d.get()).is_some(),
    }
}

/// three direction variants of one iterator kind: forward type, .rev() type, .rev().rev()
macro_rules! variants {
    ($rep:ident, $kind:literal, $ty:expr, $len:expr, $size:expr, $only:expr, $wantdir:expr;
     mk = $mk:expr, std = $std:expr, obs_k = $ok:expr, obs_r = $or:expr, ext_k = $ek:expr, ext_kr = $ekr:expr, ext_r = $er:expr) => {{
        for dir in ["", ".rev()", ".rev().rev()"] {
            if let Some(w) = $wantdir { if w != dir { continue; } }
            let d = || (format!("{}|{}|{}|{}|{}", $kind, $ty, $len, $size, dir), format!("{}{}(&[{}; {}], size {})", $kind, dir, $ty, $len, $size));
            let mut c = ctx($rep, &d, $len, $only);
            let mut path = Vec::new();
            // constructing the iterator must not panic where std's constructor does not
            let made = match dir {
                "" => catch(|| { let _ = $mk; }),
                ".rev()" => catch(|| { let _ = $mk.rev(); }),
                _ => catch(|| { let _ = $mk.rev().rev(); }),
            };
            if let Err(p) = made {
                let (rp, desc) = d();
                c.rep.transitions += 1;
                c.rep.violation(viol("slice-iter", "constructor", format!("{rp}|"), desc, "an iterator (std's constructor does not panic)".into(), format!("panic: {p}")));
                continue;
            }
            match dir {
                "" => explore(&mut c, $mk, RefIt { it: $std, reversed: false }, &$ok, &$or, &$ek, &$er, &mut path),
                ".rev()" => explore(&mut c, $mk.rev(), RefIt { it: $std, reversed: true }, &$ok, &$or, &$ekr, &$er, &mut path),
                _ => explore(&mut c, $mk.rev().rev(), RefIt { it: $std, reversed: false }, &$ok, &$or, &$ek, &$er, &mut path),
            }
            let (n, lv) = (c.nodes, c.leaves);
            if $len >= 3 && lv > 2 { $rep.nontrivial(|| format!("{}{}(&[{}; {}], {}): {} histories, {} nodes", $kind, dir, $ty, $len, $size, lv, n)); }
        }
    }};
}


macro_rules! array_chunks_n {
    ($rep:ident, $s:ident, $T:ty, $len:ident, $only:expr, $wantdir:expr, $want_n:expr; $($N:literal)*) => {$(
        if $want_n.map_or(true, |w: usize| w == $N) {
            let (ca, cr) = $s.as_chunks::<$N>();
            let exp_rem = l($s, cr);
            variants!($rep, "array_chunks", <$T as El>::NAME, $len, $N, $only, $wantdir;
                mk = ks::array_chunks::<$T, $N>($s), std = ca.iter(),
                obs_k = |x: &&[$T; $N]| l($s, &x[..]), obs_r = |x: &&[$T; $N]| l($s, &x[..]),
                ext_k = |k: &ks::ArrayChunks<'_, $T, $N>| Some(l($s, k.remainder())), ext_kr = |_k: &ks::ArrayChunksRev<'_, $T, $N>| Some(exp_rem),
                ext_r = |_r: &RefIt<std::slice::Iter<'_, [$T; $N]>>| Some(exp_rem));
        }
    )*};
}

/// a zero-sized-element slice longer than isize::MAX (no memory behind it): offsets and lengths beyond isize::MAX
static HUGE_UNITS: [(); usize::MAX] = [(); usize::MAX];
thread_local! { static DEPTH_BOUND: std::cell::Cell<Option<usize>> = const { std::cell::Cell::new(None) }; }

pub fn one<T: El>(rep: &mut Report, len: usize, size: usize, only_kind: Option<&str>, only: &Option<Vec<u8>>, wantdir: Option<&str>) {
    let v: Vec<T> = (0..len).map(T::make).collect();
    one_slice::<T>(rep, &v, size, only_kind, only, wantdir)
}

/// the huge zero-sized slice with sizes that leave only a few items, explored to a stated depth from both ends
pub fn one_huge(rep: &mut Report, size: usize, only_kind: Option<&str>, only: &Option<Vec<u8>>, wantdir: Option<&str>) {
    DEPTH_BOUND.with(|d| d.set(Some(4)));
    one_slice::<()>(rep, &HUGE_UNITS[..], size, only_kind, only, wantdir);
    DEPTH_BOUND.with(|d| d.set(None));
}

fn one_slice<T: El>(rep: &mut Report, s: &[T], size: usize, only_kind: Option<&str>, only: &Option<Vec<u8>>, wantdir: Option<&str>) {
    let len = s.len();
    let want = |k: &str| only_kind.map_or(true, |o| o == k);
    if size == 0 {
        // size 0 must panic for every sized iterator
        for (k, r) in [
            ("windows", catch(|| { let _ = ks::windows(s, 0); })),
            ("chunks", catch(|| { let _ = ks::chunks(s, 0); })),
            ("rchunks", catch(|| { let _ = ks::rchunks(s, 0); })),
            ("chunks_exact", catch(|| { let _ = ks::chunks_exact(s, 0); })),
            ("rchunks_exact", catch(|| { let _ = ks::rchunks_exact(s, 0); })),
            ("array_chunks", catch(|| { let _ = ks::array_chunks::<T, 0>(s); })),
        ] {
            rep.transitions += 1;
            if r.is_ok() && want(k) {
                rep.violation(viol("slice-iter", k, format!("{k}|{}|{len}|0||", T::NAME), format!("{k}(&[{}; {len}], 0)", T::NAME), "panic (size must be non-zero)".into(), "returned".into()));
            }
        }
        return;
    }
    if size == 1 && want("iter") {
        variants!(rep, "iter", T::NAME, len, 1, only, wantdir;
            mk = ks::iter(s), std = s.iter(),
            obs_k = |x: &&T| l(s, std::slice::from_ref(*x)), obs_r = |x: &&T| l(s, std::slice::from_ref(*x)),
            ext_k = |k: &ks::Iter<'_, T>| l(s, k.as_slice()), ext_kr = |k: &ks::IterRev<'_, T>| l(s, k.as_slice()),
            ext_r = |r: &RefIt<std::slice::Iter<'_, T>>| l(s, r.it.as_slice()));
    }
    if want("windows") {
        variants!(rep, "windows", T::NAME, len, size, only, wantdir;
            mk = ks::windows(s, size), std = s.windows(size),
            obs_k = |x: &&[T]| l(s, x), obs_r = |x: &&[T]| l(s, x), ext_k = no_ext, ext_kr = no_ext, ext_r = no_ext);
    }
    if want("chunks") {
        variants!(rep, "chunks", T::NAME, len, size, only, wantdir;
            mk = ks::chunks(s, size), std = s.chunks(size),
            obs_k = |x: &&[T]| l(s, x), obs_r = |x: &&[T]| l(s, x), ext_k = no_ext, ext_kr = no_ext, ext_r = no_ext);
    }
    if want("rchunks") {
        variants!(rep, "rchunks", T::NAME, len, size, only, wantdir;
            mk = ks::rchunks(s, size), std = s.rchunks(size),
            obs_k = |x: &&[T]| l(s, x), obs_r = |x: &&[T]| l(s, x), ext_k = no_ext, ext_kr = no_ext, ext_r = no_ext);
    }
    if want("chunks_exact") {
        variants!(rep, "chunks_exact", T::NAME, len, size, only, wantdir;
            mk = ks::chunks_exact(s, size), std = s.chunks_exact(size),
            obs_k = |x: &&[T]| l(s, x), obs_r = |x: &&[T]| l(s, x),
            ext_k = |k: &ks::ChunksExact<'_, T>| l(s, k.remainder()), ext_kr = |k: &ks::ChunksExactRev<'_, T>| l(s, k.remainder()),
            ext_r = |r: &RefIt<std::slice::ChunksExact<'_, T>>| l(s, r.it.remainder()));
    }
    if want("rchunks_exact") {
        variants!(rep, "rchunks_exact", T::NAME, len, size, only, wantdir;
            mk = ks::rchunks_exact(s, size), std = s.rchunks_exact(size),
            obs_k = |x: &&[T]| l(s, x), obs_r = |x: &&[T]| l(s, x),
            ext_k = |k: &ks::RChunksExact<'_, T>| l(s, k.remainder()), ext_kr = |k: &ks::RChunksExactRev<'_, T>| l(s, k.remainder()),
            ext_r = |r: &RefIt<std::slice::RChunksExact<'_, T>>| l(s, r.it.remainder()));
    }
    if want("array_chunks") {
        array_chunks_n!(rep, s, T, len, only, wantdir, Some(size); 1 2 3 4 5 6 7);
    }
}

/// the other entry points to the element iterator: into_iter! on &[T], &&[T], &[T; N], &&[T; N]
fn entry_points(rep: &mut Report) {
    let arr = [1u8, 2, 3, 4, 5];
    let s: &[u8] = &arr;
    macro_rules! ep {
        ($name:literal, $mk:expr, $std:expr) => {{
            let d = || (format!("into_iter|u8|5|1|{}", $name), format!("into_iter!({})", $name));
            let mut c = ctx(rep, &d, 5, &None);
            let mut path = Vec::new();
            explore(&mut c, $mk, RefIt { it: $std, reversed: false }, &|x: &&u8| l(s, std::slice::from_ref(*x)), &|x: &&u8| l(s, std::slice::from_ref(*x)),
                &|k: &ks::Iter<'_, u8>| l(s, k.as_slice()), &|r: &RefIt<std::slice::Iter<'_, u8>>| l(s, r.it.as_slice()), &mut path);
        }};
    }
    ep!("&[T]", konst::iter::into_iter!(s), s.iter());
    ep!("&&[T]", konst::iter::into_iter!(&s), s.iter());
    {
        // arrays: the iterator borrows the array itself, so locations are relative to it
        let s: &[u8] = &arr;
        let _ = s;
        ep!("&[T; N]", konst::iter::into_iter!(&arr), arr.iter());
        let r = &arr;
        ep!("&&[T; N]", konst::iter::into_iter!(&r), arr.iter());
        ep!("iter.copy()", ks::iter(s).copy(), s.iter());
    }
}

fn one_copied(rep: &mut Report, len: usize, only: &Option<Vec<u8>>, wantdir: Option<&str>) {
    let v: Vec<u8> = (0..len).map(<u8 as El>::make).collect();
    let s: &[u8] = &v;
    variants!(rep, "iter_copied", "u8", len, 1, only, wantdir;
        mk = ks::iter_copied(s), std = s.iter().copied(),
        obs_k = |x: &u8| *x, obs_r = |x: &u8| *x,
        ext_k = |k: &ks::IterCopied<'_, u8>| l(s, k.as_slice()), ext_kr = |k: &ks::IterCopiedRev<'_, u8>| l(s, k.as_slice()),
        ext_r = |r: &RefIt<std::iter::Copied<std::slice::Iter<'_, u8>>>| {
            // Copied has no as_slice: derive it from the remaining items (values are distinct = positions)
            let rem: Vec<u8> = r.it.clone().collect();
            match rem.first() { Some(f) => (Loc::At((*f - 1) as usize, rem.len()), rem.len()), None => (Loc::Empty, 0) }
        });
}

pub fn run(tier: Tier, rep: &mut Report) -> (String, String) {
    let maxlen = tier.pick(16, 19, 3);
    let mut jobs: Vec<(&str, usize, usize)> = Vec::new();
    for ty in ["u8", "unit", "String", "[u16;2]"] {
        let ml = if ty == "u8" { maxlen } else { maxlen.min(tier.pick(9, 11, 2)) };
        for len in 0..=ml {
            for size in 0..=len + 1 {
                jobs.push((ty, len, size));
            }
        }
    }
    // sizes beyond isize::MAX on small slices (std yields the whole slice once, or nothing)
    let top = isize::MAX as usize;
    for len in [0usize, 1, 3] {
        for size in [top, top + 1, usize::MAX - 1, usize::MAX] {
            jobs.push(("u8", len, size));
            jobs.push(("unit", len, size));
        }
    }
    // biggest trees first for better load balance
    jobs.sort_by_key(|j| std::cmp::Reverse((j.1 as i128 - j.2 as i128).max(-1)));
    let r = par_each(&jobs, n_threads(tier), |&(ty, len, size), r| {
        match ty {
            "u8" => {
                one::<u8>(r, len, size, None, &None, None);
                if size == 1 {
                    one_copied(r, len, &None, None);
                }
            }
            "unit" => one::<()>(r, len, size, None, &None, None),
            "String" => one::<String>(r, len, size, None, &None, None),
            _ => one::<[u16; 2]>(r, len, size, None, &None, None),
        }
        r.sample(|| format!("all next/next_back histories of every iterator kind x 3 direction variants on &[{ty}; {len}] with size {size}"));
    });
    rep.merge(r);
    // the zero-sized slice of length usize::MAX: sizes that leave 1..=4 items, plus small sizes (astronomically many items),
    // every history of up to 4 steps from both ends
    if tier != Tier::Miri {
        let huge_sizes = [usize::MAX, usize::MAX - 1, top + 2, top + 1, top, (1usize << 62) + 1, 1usize << 62, 3, 2, 1];
        rep.merge(par_each(&huge_sizes, n_threads(tier), |&size, r| {
            one_huge(r, size, None, &None, None);
            r.sample(|| format!("histories of <= 4 steps of every sized iterator kind on &[(); usize::MAX] with size {size}"));
        }));
    }
    entry_points(rep);
    (
        "state = (iterator kind, direction variant, element type, slice length, size, history of next/next_back steps); children are made from copy(); every step and every state accessor (as_slice/remainder) is compared with the std iterator of the same name by address and length; size 0 must panic; traces = complete histories (both ends report None); non-trivial = length >= 3 and more than two complete histories".into(),
        format!("kinds: iter (also through into_iter! on &[T], &&[T], &[T;N], &&[T;N]), iter_copied, windows, chunks, rchunks, chunks_exact, rchunks_exact, array_chunks::<1..=7>; variants: forward, .rev(), .rev().rev(); element types u8 (distinct) with len 0..={maxlen}, unit/String/[u16;2] with len 0..={}; sizes 0..=len+1; sizes isize::MAX, isize::MAX+1, usize::MAX-1, usize::MAX on slices of length 0, 1, 3; the zero-sized slice of length usize::MAX with 10 sizes (1, 2, 3, 2^62, 2^62+1, isize::MAX.., usize::MAX) to depth 4 from both ends", maxlen.min(tier.pick(9, 11, 3))),
    )
}

pub fn replay(case: &str, rep: &mut Report) {
    // kind|ty|len|size|dir|path
    let p: Vec<&str> = case.split('|').collect();
    let (kind, ty, len, size, dir) = (p[0], p[1], p[2].parse::<usize>().unwrap(), p[3].parse::<usize>().unwrap(), p[4]);
    let only = Some(p.get(5).copied().unwrap_or("").as_bytes().to_vec());
    if kind == "iter_copied" {
        return one_copied(rep, len, &only, Some(dir));
    }
    if kind == "into_iter" {
        return entry_points(rep);
    }
    if ty == "unit" && len == usize::MAX {
        return one_huge(rep, size, Some(kind), &only, Some(dir));
    }
    match ty {
        "u8" => one::<u8>(rep, len, size, Some(kind), &only, Some(dir)),
        "unit" => one::<()>(rep, len, size, Some(kind), &only, Some(dir)),
        "String" => one::<String>(rep, len, size, Some(kind), &only, Some(dir)),
        _ => one::<[u16; 2]>(rep, len, size, Some(kind), &only, Some(dir)),
    }
}
