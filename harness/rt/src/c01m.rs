//! C01 — the macro half of the driver for the remaining safe API: fixed programs over the macros that expand to
//! unsafe code (array macros, destructure!, iterator DSL, concatenation macros).  Kept in its own module (feature
//! `misc_macros`) so that a change to konst under which one of these programs no longer compiles does not take the
//! other engines down with it.
use crate::common::*;

/// fixed programs over the macros that expand to unsafe code (array macros, destructure!, iterator DSL, concatenation)
pub fn misc_macros(rep: &mut Report) {
    // array macros incl. non-Copy / by-value / ZST / length 0
    let a0: [u8; 0] = [];
    let _: [u16; 0] = konst::array::map!(a0, |x| x as u16);
    let a3 = [1u8, 2, 3];
    assert_eq!(konst::array::map!(a3, |x| x as u16 * 2), [2, 4, 6]);
    let s3 = [String::from("a"), String::from("b"), String::from("c")];
    assert_eq!(konst::array::map!(s3, |ref s| s.len()), [1, 1, 1]);
    assert_eq!(konst::array::map_!(s3, |s| s + "!"), ["a!", "b!", "c!"]);
    let u3 = [(), (), ()];
    assert_eq!(konst::array::map_!(u3, |_x| 7u8), [7, 7, 7]);
    assert_eq!(konst::array::from_fn!([String; 2] => |i| i.to_string()), ["0", "1"]);
    assert_eq!(konst::array::from_fn_!([String; 2] => |i| i.to_string()), ["0", "1"]);
    let _: [(); 4] = konst::array::from_fn_!(|_i| ());
    // panicking closure in the by-value map: elements must be dropped (no double free / leak is fine)
    let s2 = [String::from("p"), String::from("q")];
    let mut n = 0;
    let r = catch(|| konst::array::map_!(s2, |s| { n += 1; if n == 2 { panic!("x") } s }));
    assert!(r.is_err());
    // hostile control flow inside the closure: a one-off `continue` re-runs the element, a `break` must be refused;
    // in neither case may an unwritten slot reach array_assume_init (the interpreter flags the uninitialised read)
    let mut once = true;
    let h1 = konst::array::map!(a3, |x| { if once { once = false; continue; } x as u16 + 1 });
    assert_eq!(h1, [2, 3, 4]);
    let mut once = true;
    let h2: [usize; 3] = konst::array::from_fn!(|i| { if i == 1 && once { once = false; continue; } i * 2 });
    assert_eq!(h2, [0, 2, 4]);
    for k in 0..3usize {
        let mut n = 0usize;
        let r = catch(|| konst::array::map!(a3, |x| { let i = n; n += 1; if i == k { break; } x }));
        assert!(r.is_err(), "break inside array::map! must not yield an array");
        let mut n = 0usize;
        let r = catch(|| konst::array::from_fn_!(|_i| { let i = n; n += 1; if i == k { break; } String::from("s") }));
        assert!(r.map(|a: [String; 3]| a.len()).is_err(), "break inside array::from_fn_! must not yield an array");
    }
    rep.transitions += 20;

    // destructure! incl. packed / generic / arrays with rest
    #[repr(packed)]
    struct P { a: u8, b: String, c: u64 }
    struct G<T>(T, String);
    let p = P { a: 1, b: String::from("b"), c: 9 };
    konst::destructure! {P {a, b, c} = p}
    assert_eq!((a, b.as_str(), c), (1, "b", 9));
    let g = G(vec![1u8], String::from("g"));
    konst::destructure! {G(x, y) = g}
    assert_eq!((x, y.as_str()), (vec![1u8], "g"));
    let arr = [String::from("0"), String::from("1"), String::from("2"), String::from("3")];
    konst::destructure! {[first, mid @ .., last] = arr}
    assert_eq!((first.as_str(), mid.len(), last.as_str()), ("0", 2, "3"));
    let arr = [String::from("0"), String::from("1"), String::from("2")];
    konst::destructure! {[_, .., l2] = arr}
    assert_eq!(l2, "2");
    let t = (String::from("t"), 5u8, vec![1u16]);
    konst::destructure! {(t0, _, t2) = t}
    assert_eq!((t0.as_str(), t2.len()), ("t", 1));
    // every tuple arity up to the documented maximum, with heap-owning components: a component read twice is a double free
    // (the allocator / the interpreter reports it), one never moved out is a wrong value
    macro_rules! tuple_arity {
        ($($v:ident)*) => {{
            let mut k = 0usize;
            let t = ($({ k += 1; let $v = format!("c{k}"); $v },)*);
            konst::destructure! {($($v),*,) = t}
            let got: Vec<String> = vec![$($v),*];
            let exp: Vec<String> = (1..=got.len()).map(|i| format!("c{i}")).collect();
            assert_eq!(got, exp);
        }};
    }
    tuple_arity!(a1);
    tuple_arity!(a1 a2);
    tuple_arity!(a1 a2 a3);
    tuple_arity!(a1 a2 a3 a4);
    tuple_arity!(a1 a2 a3 a4 a5 a6 a7 a8);
    tuple_arity!(a1 a2 a3 a4 a5 a6 a7 a8 a9 a10 a11 a12 a13 a14 a15);
    tuple_arity!(a1 a2 a3 a4 a5 a6 a7 a8 a9 a10 a11 a12 a13 a14 a15 a16);
    // misaligned fields of packed structs (tuple-struct and braced form) with heap-owning neighbours
    #[repr(C, packed)]
    struct PT(u8, u64, String, u8, u32);
    let pt = PT(1, 2, String::from("pt"), 3, 4);
    konst::destructure! {PT(p0, p1, p2, p3, p4) = pt}
    assert_eq!((p0, p1, p2.as_str(), p3, p4), (1, 2, "pt", 3, 4));
    rep.transitions += 12;

    // iterator DSL at run time (incl. collect-like use through for_each) and string iterators inside it
    let xs = [3u16, 1, 2, 5];
    let mut out = Vec::new();
    konst::iter::for_each! {((i, x), z) in &xs, rev(), enumerate(), zip(10u8..) => out.push((i, *x, z)); }
    assert_eq!(out.len(), 4);
    let c = konst::iter::eval!(konst::string::split("a,ñ,€", ","), flat_map(|s| konst::string::chars(s)), count());
    assert_eq!(c, 3);
    let f = konst::iter::eval!(konst::slice::windows(&xs, 2), rfind(|w| w[0] > w[1]));
    assert_eq!(f, Some(&[3u16, 1][..]));
    const CC: [(usize, &u16); 2] = konst::iter::collect_const!((usize, &u16) => &[7u16, 8, 9], enumerate(), skip(1));
    assert_eq!(CC, [(1, &8), (2, &9)]);
    const S: &str = konst::string::from_iter!(&["ñ", "€"], rev());
    assert_eq!(S, "€ñ");
    assert_eq!(konst::string::str_join!('€', &["a", "b"]), "a€b");
    assert_eq!(konst::slice::slice_concat!(u16, &[&[1], &[], &[2, 3]]), [1, 2, 3]);
    rep.transitions += 8;
}

