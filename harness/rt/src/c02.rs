//! C02 — slice indexing / splitting = std (E1: every length x every index / index pair x every function).
use crate::common::*;
use konst::slice as ks;

pub trait Elem: Clone + PartialEq + std::fmt::Debug + 'static {
    const NAME: &'static str;
    fn make(i: usize) -> Self;
    fn sentinel() -> Self;
}
impl Elem for u8 {
    const NAME: &'static str = "u8";
    fn make(i: usize) -> Self {
        i as u8 + 1
    }
    fn sentinel() -> Self {
        0xEE
    }
}
impl Elem for u64 {
    const NAME: &'static str = "u64";
    fn make(i: usize) -> Self {
        0x0101_0101_0101_0101 * (i as u64 + 1)
    }
    fn sentinel() -> Self {
        u64::MAX
    }
}
impl Elem for () {
    const NAME: &'static str = "unit";
    fn make(_: usize) -> Self {}
    fn sentinel() -> Self {}
}
#[derive(Clone, Copy, PartialEq, Debug)]
#[repr(align(32))]
pub struct Zst32;
impl Elem for Zst32 {
    const NAME: &'static str = "zst_align32";
    fn make(_: usize) -> Self {
        Zst32
    }
    fn sentinel() -> Self {
        Zst32
    }
}
impl Elem for String {
    const NAME: &'static str = "String";
    fn make(i: usize) -> Self {
        format!("s{i}")
    }
    fn sentinel() -> Self {
        "SENTINEL".to_string()
    }
}
#[derive(Clone, Copy, PartialEq, Debug)]
pub struct B3([u8; 3]);
impl Elem for B3 {
    const NAME: &'static str = "[u8;3]";
    fn make(i: usize) -> Self {
        B3([i as u8, i as u8 + 100, 7])
    }
    fn sentinel() -> Self {
        B3([0xEE; 3])
    }
}

const TYPES: &[&str] = &["u8", "u64", "unit", "zst_align32", "String", "[u8;3]"];

/// region of a (possibly mutable) result relative to the base pointer recorded before the call
fn region<T>(base: *const T, base_len: usize, p: *const T, len: usize) -> Loc {
    if len == 0 {
        return Loc::Empty;
    }
    let sz = std::mem::size_of::<T>();
    if sz == 0 {
        return if len <= base_len { Loc::At(0, len) } else { Loc::Outside };
    }
    let (b, c) = (base as usize, p as usize);
    if c < b || (c - b) % sz != 0 {
        return Loc::Outside;
    }
    let off = (c - b) / sz;
    if off + len <= base_len {
        Loc::At(off, len)
    } else {
        Loc::Outside
    }
}

struct Ctx<'a> {
    rep: &'a mut Report,
    ty: &'static str,
    len: usize,
    a: usize,
    b: usize,
}
impl Ctx<'_> {
    fn cmp<X: PartialEq + std::fmt::Debug + std::hash::Hash>(&mut self, func: &str, exp: X, obs: Result<X, String>) {
        self.rep.transitions += 1;
        self.rep.evaluations += 1;
        self.rep.outcome(&(func, &obs.as_ref().ok()));
        let bad = match &obs {
            Ok(o) => *o != exp,
            Err(_) => true,
        };
        if bad {
            let replay = format!("{}|{}|{}|{}", self.ty, self.len, self.a, self.b);
            let case = format!("{}(&[{}; len {}], {}, {})", func, self.ty, self.len, self.a, self.b);
            let o = match obs {
                Ok(o) => format!("{o:?}"),
                Err(p) => format!("panic: {p}"),
            };
            self.rep.violation(viol("slice-index", func, replay, case, format!("{exp:?}"), o));
        }
    }
}

fn clamp_range_raw(len: usize, s: usize, e: usize) -> Loc {
    let e = e.min(len);
    let s = s.min(e);
    if e - s == 0 {
        Loc::Empty
    } else {
        Loc::At(s, e - s)
    }
}
thread_local! { static ZST: std::cell::Cell<bool> = const { std::cell::Cell::new(false) }; }
/// expected location; for zero-sized element types all offsets coincide, so only the length is comparable
fn at(o: usize, l: usize) -> Loc {
    if l == 0 {
        Loc::Empty
    } else if ZST.with(|z| z.get()) {
        Loc::At(0, l)
    } else {
        Loc::At(o, l)
    }
}
fn clamp_range(len: usize, s: usize, e: usize) -> Loc {
    match clamp_range_raw(len, s, e) {
        Loc::At(o, l) => at(o, l),
        x => x,
    }
}
fn opt_loc<T>(base: &[T], r: Option<&[T]>) -> Option<Loc> {
    r.map(|x| loc(base, x))
}

/// Write a sentinel through a returned &mut region and check that exactly `exp` changed.
fn write_check<T: Elem>(v: &mut Vec<T>, region_of: impl FnOnce(&mut [T]) -> Option<&mut [T]>, exp: Loc) -> Result<bool, String> {
    let orig = v.clone();
    {
        if let Some(r) = region_of(&mut v[..]) {
            for x in r.iter_mut() {
                *x = T::sentinel();
            }
        }
    }
    let (o, l) = match exp {
        Loc::At(o, l) => (o, l),
        _ => (0, 0),
    };
    // (for zero-sized types every element equals the sentinel, so the offset is irrelevant here)
    for i in 0..orig.len() {
        let want = if i >= o && i < o + l { T::sentinel() } else { orig[i].clone() };
        if v[i] != want {
            return Err(format!("element {i} is {:?}, wanted {:?}", v[i], want));
        }
    }
    *v = orig;
    Ok(true)
}

fn one_index<T: Elem>(rep: &mut Report, len: usize, i: usize) {
    let mut c = Ctx { rep, ty: T::NAME, len, a: i, b: usize::MAX };
    let mut v: Vec<T> = (0..len).map(T::make).collect();
    let base = v.as_ptr();
    let s: &[T] = &v;

    // get
    let e = s.get(i).map(|r| region(base, len, r, 1));
    c.cmp("get", e, catch(|| ks::get(s, i).map(|r| region(base, len, r, 1))));
    // from / up_to: fallible
    let e = opt_loc(s, s.get(i..));
    c.cmp("get_from", e, catch(|| opt_loc(s, ks::get_from(s, i))));
    let e = opt_loc(s, s.get(..i));
    c.cmp("get_up_to", e, catch(|| opt_loc(s, ks::get_up_to(s, i))));
    // clamping
    c.cmp("slice_from", clamp_range(len, i, usize::MAX), catch(|| loc(s, ks::slice_from(s, i))));
    c.cmp("slice_up_to", clamp_range(len, 0, i), catch(|| loc(s, ks::slice_up_to(s, i))));
    c.cmp(
        "split_at",
        (clamp_range(len, 0, i), clamp_range(len, i, usize::MAX)),
        catch(|| {
            let (l, r) = ks::split_at(s, i);
            (loc(s, l), loc(s, r))
        }),
    );
    if i <= len {
        // where std's split_at is defined the two must agree exactly (incl. lengths of empty halves)
        let (l, r) = s.split_at(i);
        c.cmp(
            "split_at(lens)",
            (l.len(), r.len()),
            catch(|| {
                let (l, r) = ks::split_at(s, i);
                (l.len(), r.len())
            }),
        );
    }

    // _mut twins: same region, and writes land exactly there
    let e = if i < len { Some(at(i, 1)) } else { None };
    c.cmp("get_mut", e, catch(|| ks::get_mut(&mut v[..], i).map(|r| region(base, len, r as *const T, 1))));
    let e = if i <= len { Some(clamp_range(len, i, usize::MAX)) } else { None };
    c.cmp("get_from_mut", e, catch(|| ks::get_from_mut(&mut v[..], i).map(|r| region(base, len, r.as_ptr(), r.len()))));
    let e = if i <= len { Some(clamp_range(len, 0, i)) } else { None };
    c.cmp("get_up_to_mut", e, catch(|| ks::get_up_to_mut(&mut v[..], i).map(|r| region(base, len, r.as_ptr(), r.len()))));
    c.cmp(
        "slice_from_mut",
        clamp_range(len, i, usize::MAX),
        catch(|| {
            let r = ks::slice_from_mut(&mut v[..], i);
            region(base, len, r.as_ptr(), r.len())
        }),
    );
    c.cmp(
        "slice_up_to_mut",
        clamp_range(len, 0, i),
        catch(|| {
            let r = ks::slice_up_to_mut(&mut v[..], i);
            region(base, len, r.as_ptr(), r.len())
        }),
    );
    c.cmp(
        "split_at_mut",
        (clamp_range(len, 0, i), clamp_range(len, i, usize::MAX)),
        catch(|| {
            let (l, r) = ks::split_at_mut(&mut v[..], i);
            (region(base, len, l.as_ptr(), l.len()), region(base, len, r.as_ptr(), r.len()))
        }),
    );
    // write-through checks
    c.cmp("slice_from_mut(write)", Ok(true), catch(|| write_check(&mut v, |s| Some(ks::slice_from_mut(s, i)), clamp_range(len, i, usize::MAX))));
    c.cmp("slice_up_to_mut(write)", Ok(true), catch(|| write_check(&mut v, |s| Some(ks::slice_up_to_mut(s, i)), clamp_range(len, 0, i))));
    c.cmp("split_at_mut(write right)", Ok(true), catch(|| write_check(&mut v, |s| Some(ks::split_at_mut(s, i).1), clamp_range(len, i, usize::MAX))));
    c.cmp("split_at_mut(write left)", Ok(true), catch(|| write_check(&mut v, |s| Some(ks::split_at_mut(s, i).0), clamp_range(len, 0, i))));
    c.cmp(
        "get_mut(write)",
        Ok(true),
        catch(|| write_check(&mut v, |s| ks::get_mut(s, i).map(std::slice::from_mut), if i < len { at(i, 1) } else { Loc::Empty })),
    );
}

fn one_pair<T: Elem>(rep: &mut Report, len: usize, a: usize, b: usize) {
    let mut c = Ctx { rep, ty: T::NAME, len, a, b };
    let mut v: Vec<T> = (0..len).map(T::make).collect();
    let base = v.as_ptr();
    let s: &[T] = &v;
    let e = opt_loc(s, s.get(a..b));
    c.cmp("get_range", e, catch(|| opt_loc(s, ks::get_range(s, a, b))));
    c.cmp("slice_range", clamp_range(len, a, b), catch(|| loc(s, ks::slice_range(s, a, b))));
    if let Some(x) = s.get(a..b) {
        // where std's range exists the clamping variant must be *that* sub-slice, also when empty (length)
        c.cmp("slice_range(len)", x.len(), catch(|| ks::slice_range(s, a, b).len()));
    }
    let e = if a <= b && b <= len { Some(clamp_range(len, a, b)) } else { None };
    c.cmp("get_range_mut", e, catch(|| ks::get_range_mut(&mut v[..], a, b).map(|r| region(base, len, r.as_ptr(), r.len()))));
    c.cmp(
        "slice_range_mut",
        clamp_range(len, a, b),
        catch(|| {
            let r = ks::slice_range_mut(&mut v[..], a, b);
            region(base, len, r.as_ptr(), r.len())
        }),
    );
    c.cmp("slice_range_mut(write)", Ok(true), catch(|| write_check(&mut v, |s| Some(ks::slice_range_mut(s, a, b)), clamp_range(len, a, b))));
    c.cmp(
        "get_range_mut(write)",
        Ok(true),
        catch(|| write_check(&mut v, |s| ks::get_range_mut(s, a, b), if a <= b && b <= len { clamp_range(len, a, b) } else { Loc::Empty })),
    );
}

macro_rules! arrays {
    ($c:ident, $s:ident, $v:ident, $base:ident, $len:ident, $T:ty; $($n:literal)*) => {$(
        {
            let e: Result<Loc, ()> = <&[$T; $n]>::try_from($s).map(|r| loc($s, &r[..])).map_err(|_| ());
            $c.a = $n;
            $c.cmp(concat!("try_into_array::<", $n, ">"), e, catch(|| ks::try_into_array::<$T, $n>($s).map(|r| loc($s, &r[..])).map_err(|_| ())));
            let e: Result<Loc, ()> = if $len == $n { Ok(clamp_range($len, 0, $len)) } else { Err(()) };
            $c.cmp(concat!("try_into_array_mut::<", $n, ">"), e,
                catch(|| ks::try_into_array_mut::<$T, $n>(&mut $v[..]).map(|r| region($base, $len, r.as_ptr(), $n)).map_err(|_| ())));
            if $n == $len {
                $c.cmp(concat!("try_into_array::<", $n, ">(content)"), true,
                    catch(|| ks::try_into_array::<$T, $n>($s).map(|r| r[..] == $s[..]).unwrap_or(false)));
            }
        }
    )*};
}
macro_rules! chunks {
    ($c:ident, $s:ident, $len:ident, $T:ty; $($n:literal)*) => {$(
        {
            $c.a = $n;
            let (ca, cr) = $s.as_chunks::<$n>();
            let e = (ca.len(), loc($s, ca.as_flattened()), loc($s, cr), cr.len());
            $c.cmp(concat!("as_chunks::<", $n, ">"), e, catch(|| {
                let (ka, kr) = ks::as_chunks::<$T, $n>($s);
                (ka.len(), loc($s, ka.as_flattened()), loc($s, kr), kr.len())
            }));
            let (cr, ca) = $s.as_rchunks::<$n>();
            let e = (ca.len(), loc($s, ca.as_flattened()), loc($s, cr), cr.len());
            $c.cmp(concat!("as_rchunks::<", $n, ">"), e, catch(|| {
                let (kr, ka) = ks::as_rchunks::<$T, $n>($s);
                (ka.len(), loc($s, ka.as_flattened()), loc($s, kr), kr.len())
            }));
            // same elements in the same order
            $c.cmp(concat!("as_chunks::<", $n, ">(content)"), true, catch(|| {
                let (ka, kr) = ks::as_chunks::<$T, $n>($s);
                let (sa, sr) = $s.as_chunks::<$n>();
                ka == sa && kr == sr
            }));
            $c.cmp(concat!("as_rchunks::<", $n, ">(content)"), true, catch(|| {
                let (kr, ka) = ks::as_rchunks::<$T, $n>($s);
                let (sr, sa) = $s.as_rchunks::<$n>();
                ka == sa && kr == sr
            }));
        }
    )*};
}

fn whole<T: Elem>(rep: &mut Report, len: usize) {
    let mut c = Ctx { rep, ty: T::NAME, len, a: usize::MAX, b: usize::MAX - 7 };
    let mut v: Vec<T> = (0..len).map(T::make).collect();
    let base = v.as_ptr();
    // first_mut / last_mut / split_first_mut / split_last_mut
    let e = if len > 0 { Some(at(0, 1)) } else { None };
    c.cmp("first_mut", e, catch(|| ks::first_mut(&mut v[..]).map(|r| region(base, len, r as *const T, 1))));
    let e = if len > 0 { Some(at(len - 1, 1)) } else { None };
    c.cmp("last_mut", e, catch(|| ks::last_mut(&mut v[..]).map(|r| region(base, len, r as *const T, 1))));
    let e = if len > 0 { Some((at(0, 1), clamp_range(len, 1, len))) } else { None };
    c.cmp(
        "split_first_mut",
        e,
        catch(|| ks::split_first_mut(&mut v[..]).map(|(f, r)| (region(base, len, f as *const T, 1), region(base, len, r.as_ptr(), r.len())))),
    );
    let e = if len > 0 { Some((at(len - 1, 1), clamp_range(len, 0, len - 1))) } else { None };
    c.cmp(
        "split_last_mut",
        e,
        catch(|| ks::split_last_mut(&mut v[..]).map(|(l, r)| (region(base, len, l as *const T, 1), region(base, len, r.as_ptr(), r.len())))),
    );
    c.cmp("first_mut(write)", Ok(true), catch(|| write_check(&mut v, |s| ks::first_mut(s).map(std::slice::from_mut), if len > 0 { at(0, 1) } else { Loc::Empty })));
    c.cmp("last_mut(write)", Ok(true), catch(|| write_check(&mut v, |s| ks::last_mut(s).map(std::slice::from_mut), if len > 0 { at(len - 1, 1) } else { Loc::Empty })));
    c.cmp("split_first_mut(write rest)", Ok(true), catch(|| write_check(&mut v, |s| ks::split_first_mut(s).map(|x| x.1), clamp_range(len, 1, len))));
    c.cmp("split_last_mut(write rest)", Ok(true), catch(|| write_check(&mut v, |s| ks::split_last_mut(s).map(|x| x.1), if len > 0 { clamp_range(len, 0, len - 1) } else { Loc::Empty })));

    c.b = usize::MAX - 8; // marks the "arrays" group in the replay encoding
    {
        let s: &[T] = &v.clone();
        let base = s.as_ptr();
        let _ = base;
        let mut v2: Vec<T> = s.to_vec();
        let base2 = v2.as_ptr();
        arrays!(c, s, v2, base2, len, T; 0 1 2 3 4 5 6);
        chunks!(c, s, len, T; 1 2 3 4 5 7);
        c.a = 0;
        c.cmp("as_chunks::<0> panics", true, Ok(catch(|| ks::as_chunks::<T, 0>(s).0.len()).is_err()));
        c.cmp("as_rchunks::<0> panics", true, Ok(catch(|| ks::as_rchunks::<T, 0>(s).1.len()).is_err()));
    }
}

/// Zero-sized element types allow slices longer than isize::MAX elements (up to usize::MAX):
/// every index computation must still agree with std there. Only lengths are comparable for ZSTs.
macro_rules! huge_zst {
    ($rep:ident, $T:ty, $val:expr) => {{
        ZST.with(|z| z.set(true));
        let mut big: [$T; usize::MAX] = [$val; usize::MAX];
        let im = isize::MAX as usize;
        for &len in &[im - 1, im, im + 1, usize::MAX - 1, usize::MAX] {
            let mut idx = vec![0usize, 1, 2, 3, im - 1, im, im + 1, usize::MAX - 1, usize::MAX, len - 1, len, len / 2];
            if len < usize::MAX { idx.push(len + 1) }
            idx.sort(); idx.dedup();
            let ln = |o: Option<&[$T]>| o.map(|x| x.len());
            for &i in &idx {
                $rep.states += 1;
                let s: &[$T] = &big[..len];
                let mut c = Ctx { rep: $rep, ty: <$T as Elem>::NAME, len, a: i, b: usize::MAX - 9 };
                c.cmp("get(huge zst)", s.get(i).is_some(), catch(|| ks::get(s, i).is_some()));
                c.cmp("get_from(huge zst)", ln(s.get(i..)), catch(|| ln(ks::get_from(s, i))));
                c.cmp("get_up_to(huge zst)", ln(s.get(..i)), catch(|| ln(ks::get_up_to(s, i))));
                c.cmp("slice_from(huge zst)", len.saturating_sub(i), catch(|| ks::slice_from(s, i).len()));
                c.cmp("slice_up_to(huge zst)", i.min(len), catch(|| ks::slice_up_to(s, i).len()));
                c.cmp("split_at(huge zst)", (i.min(len), len.saturating_sub(i)), catch(|| { let (l, r) = ks::split_at(s, i); (l.len(), r.len()) }));
                let m: &mut [$T] = &mut big[..len];
                c.cmp("get_mut(huge zst)", i < len, catch(|| ks::get_mut(&mut *m, i).is_some()));
                c.cmp("get_from_mut(huge zst)", if i <= len { Some(len - i) } else { None }, catch(|| ks::get_from_mut(&mut *m, i).map(|x| x.len())));
                c.cmp("get_up_to_mut(huge zst)", if i <= len { Some(i) } else { None }, catch(|| ks::get_up_to_mut(&mut *m, i).map(|x| x.len())));
                c.cmp("slice_from_mut(huge zst)", len.saturating_sub(i), catch(|| ks::slice_from_mut(&mut *m, i).len()));
                c.cmp("slice_up_to_mut(huge zst)", i.min(len), catch(|| ks::slice_up_to_mut(&mut *m, i).len()));
                c.cmp("split_at_mut(huge zst)", (i.min(len), len.saturating_sub(i)), catch(|| { let (l, r) = ks::split_at_mut(&mut *m, i); (l.len(), r.len()) }));
                for &j in &idx {
                    $rep.states += 1;
                    let s: &[$T] = &big[..len];
                    let mut c = Ctx { rep: $rep, ty: <$T as Elem>::NAME, len, a: i, b: j };
                    c.b = j;
                    c.cmp("get_range(huge zst)", ln(s.get(i..j)), catch(|| ln(ks::get_range(s, i, j))));
                    let e = j.min(len);
                    c.cmp("slice_range(huge zst)", e - i.min(e), catch(|| ks::slice_range(s, i, j).len()));
                    let m: &mut [$T] = &mut big[..len];
                    c.cmp("get_range_mut(huge zst)", if i <= j && j <= len { Some(j - i) } else { None }, catch(|| ks::get_range_mut(&mut *m, i, j).map(|x| x.len())));
                    c.cmp("slice_range_mut(huge zst)", e - i.min(e), catch(|| ks::slice_range_mut(&mut *m, i, j).len()));
                }
            }
            let s: &[$T] = &big[..len];
            let mut c = Ctx { rep: $rep, ty: <$T as Elem>::NAME, len, a: 0, b: usize::MAX - 9 };
            macro_rules! ch { ($N:literal) => {{
                c.a = $N;
                let (a, r) = s.as_chunks::<$N>();
                c.cmp(concat!("as_chunks::<", $N, ">(huge zst)"), (a.len(), r.len()), catch(|| { let (a, r) = ks::as_chunks::<$T, $N>(s); (a.len(), r.len()) }));
                let (r, a) = s.as_rchunks::<$N>();
                c.cmp(concat!("as_rchunks::<", $N, ">(huge zst)"), (a.len(), r.len()), catch(|| { let (r, a) = ks::as_rchunks::<$T, $N>(s); (a.len(), r.len()) }));
            }}}
            ch!(1); ch!(2); ch!(3); ch!(7); ch!(4096);
            c.rep.nontrivial(|| format!("{} slice of length {} (> isize::MAX elements)", <$T as Elem>::NAME, len));
        }
    }};
}

fn run_type<T: Elem>(rep: &mut Report, maxlen: usize) {
    ZST.with(|z| z.set(std::mem::size_of::<T>() == 0));
    for len in 0..=maxlen {
        let idx = index_set(len);
        whole::<T>(rep, len);
        rep.states += 1;
        for &i in &idx {
            one_index::<T>(rep, len, i);
            rep.states += 1;
            if i <= len + 1 || i >= isize::MAX as usize {
                rep.nontrivial(|| format!("{} len={} index={}", T::NAME, len, i));
            }
        }
        for &a in &idx {
            for &b in &idx {
                one_pair::<T>(rep, len, a, b);
                rep.states += 1;
            }
        }
        rep.sample(|| format!("{} len={} indices={:?} and all pairs", T::NAME, len, idx));
    }
}

fn dispatch(rep: &mut Report, ty: &str, f: &dyn Fn(&mut Report, &str)) {
    f(rep, ty)
}

pub fn run(tier: Tier, rep: &mut Report) -> (String, String) {
    let maxlen = tier.pick(32, 64, if miri_deep() { 3 } else { 2 });
    let r = par_each(TYPES, n_threads(tier), |ty, r| {
        dispatch(r, ty, &|r, ty| match ty {
            "u8" => run_type::<u8>(r, maxlen),
            "u64" => run_type::<u64>(r, maxlen),
            "unit" => run_type::<()>(r, maxlen),
            "zst_align32" => run_type::<Zst32>(r, maxlen),
            "String" => run_type::<String>(r, maxlen),
            "[u8;3]" => run_type::<B3>(r, maxlen),
            _ => unreachable!(),
        })
    });
    rep.merge(r);
    if tier != Tier::Miri {
        huge_zst!(rep, (), ());
        huge_zst!(rep, Zst32, Zst32);
    }
    rep.traces = rep.transitions;
    (
        "every (element type, length, index) and (element type, length, start, end) is one state; every konst::slice indexing/splitting function called on it is one transition, compared with std by address and length (and, for _mut, by writing a sentinel through the result); non-trivial = index within len+1 of the length or >= isize::MAX (the values that straddle the guards)".into(),
        format!("types={TYPES:?} lengths=0..={maxlen} indices=index_set(len)=0..=len+2 U {{isize::MAX-1..=isize::MAX+1, usize::MAX-1, usize::MAX}} all pairs; N in 0..=6 for try_into_array, 1..=5,7 (and 0 => panic) for as_chunks/as_rchunks; plus zero-sized element slices of length isize::MAX-1, isize::MAX, isize::MAX+1, usize::MAX-1, usize::MAX (lengths only)"),
    )
}

pub fn replay(case: &str, rep: &mut Report) {
    let p: Vec<&str> = case.split('|').collect();
    let (ty, len, a, b): (&str, usize, usize, usize) = (p[0], p[1].parse().unwrap(), p[2].parse().unwrap(), p[3].parse().unwrap());
    fn go<T: Elem>(rep: &mut Report, len: usize, a: usize, b: usize) {
        ZST.with(|z| z.set(std::mem::size_of::<T>() == 0));
        if len >= isize::MAX as usize - 1 {
            // huge ZST family: re-run it whole (cheap)
            if std::mem::size_of::<T>() == 0 && T::NAME == "unit" {
                huge_zst!(rep, (), ());
            } else {
                huge_zst!(rep, Zst32, Zst32);
            }
        } else if b == usize::MAX - 7 || b == usize::MAX - 8 {
            whole::<T>(rep, len)
        } else if b == usize::MAX {
            one_index::<T>(rep, len, a);
            one_pair::<T>(rep, len, a, b);
        } else {
            one_pair::<T>(rep, len, a, b)
        }
    }
    match ty {
        "u8" => go::<u8>(rep, len, a, b),
        "u64" => go::<u64>(rep, len, a, b),
        "unit" => go::<()>(rep, len, a, b),
        "zst_align32" => go::<Zst32>(rep, len, a, b),
        "String" => go::<String>(rep, len, a, b),
        "[u8;3]" => go::<B3>(rep, len, a, b),
        _ => panic!("bad type in replay"),
    }
}
