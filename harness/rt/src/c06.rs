//! C06 — split iterators = std split family (E2: every (string, delimiter) x every iterator kind,
//! stepped to exhaustion plus one, remainder checked after every step).
use crate::common::*;
use konst::string as kst;

#[derive(Clone, Copy, PartialEq, Debug)]
enum Dir {
    /// pieces come left to right; remainder is a suffix
    Fwd,
    /// pieces come right to left; remainder is a prefix
    Bwd,
}

/// expected remainder after a piece located at [ps, pe) of `s`
fn exp_rem(s: &str, dir: Dir, ps: usize, pe: usize, dl: usize) -> Loc {
    match dir {
        Dir::Fwd => {
            let st = pe + dl;
            if st >= s.len() { Loc::Empty } else { Loc::At(st, s.len() - st) }
        }
        Dir::Bwd => {
            if ps <= dl { Loc::Empty } else { Loc::At(0, ps - dl) }
        }
    }
}

struct Ctx<'a> {
    rep: &'a mut Report,
    s: &'a str,
    d: &'a str,
    dk: &'static str,
}

impl Ctx<'_> {
    fn fail(&mut self, kind: &str, step: usize, what: &str, exp: String, obs: String) {
        let replay = format!("{}|{}|{}", hexs(self.s), hexs(self.d), self.dk);
        self.rep.violation(viol(
            "split",
            kind,
            replay,
            format!("{kind}({:?}, {:?} as {}) step {step}: {what}", self.s, self.d, self.dk),
            exp,
            obs,
        ));
    }

    /// Drive one konst iterator (given as a stepping closure over a boxed state) against the expected pieces.
    fn drive<I>(&mut self, kind: &str, dir: Dir, exp: &[&str], mut it: I, step: &dyn Fn(I) -> Result<Option<(String, (Loc, usize), I)>, String>, rem: &dyn Fn(&I) -> (Loc, usize))
    where
        I: Sized,
    {
        let s = self.s;
        let dl = self.d.len();
        let cap = s.len() + 3;
        self.rep.states += 1;
        // before any step the remainder is the whole input
        let r0 = rem(&it);
        let e0 = if s.is_empty() { Loc::Empty } else { Loc::At(0, s.len()) };
        if r0.0 != e0 {
            return self.fail(kind, 0, "remainder before the first step", format!("{e0:?}"), format!("{r0:?}"));
        }
        let mut k = 0usize;
        loop {
            if k > cap {
                return self.fail(kind, k, "iterator does not terminate", format!("{} pieces", exp.len()), format!("more than {cap} steps"));
            }
            self.rep.transitions += 1;
            self.rep.evaluations += 1;
            match step(it) {
                Err(p) => return self.fail(kind, k, "next", format!("{:?}", exp.get(k)), format!("panic: {p}")),
                Ok(None) => {
                    if k != exp.len() {
                        return self.fail(kind, k, "next", format!("Some({:?}) (std yields {} pieces: {:?})", exp[k], exp.len(), exp), "None".into());
                    }
                    break;
                }
                Ok(Some((piece, ploc, next))) => {
                    self.rep.outcome(&(kind, &piece));
                    let Some(e) = exp.get(k) else {
                        return self.fail(kind, k, "next", format!("None (std yields {} pieces: {:?})", exp.len(), exp), format!("Some({piece:?})"));
                    };
                    // content, and address for non-empty pieces (std pieces are always sub-slices of the input)
                    let eloc = loc_str(s, e);
                    if piece != *e || (ploc.0 != eloc && !piece.is_empty()) || ploc.0 == Loc::Outside {
                        return self.fail(kind, k, "next", format!("Some({e:?} at {eloc:?})"), format!("Some({piece:?} at {:?})", ploc.0));
                    }
                    // remainder = the part of the input not yet handed out
                    let (ps, _) = locate_str(s, e).expect("std piece inside input");
                    let er = exp_rem(s, dir, ps, ps + e.len(), dl);
                    let r = rem(&next);
                    if r.0 != er {
                        return self.fail(kind, k, "remainder after this step", format!("{er:?}"), format!("{r:?}"));
                    }
                    it = next;
                    k += 1;
                    self.rep.states += 1;
                }
            }
        }
        self.rep.traces += 1;
    }
}

macro_rules! drive_kind {
    ($c:ident, $kind:literal, $dir:expr, $exp:expr, $mk:expr, $ty:ty, has_rem = $has_rem:tt) => {{
        let s = $c.s;
        match catch(|| $mk) {
            Err(p) => $c.fail($kind, 0, "constructor", "an iterator".into(), format!("panic: {p}")),
            Ok(it) => {
                let step = |i: $ty| -> Result<Option<(String, (Loc, usize), $ty)>, String> {
                    catch(move || i.next().map(|(p, n)| (p.to_string(), (loc_str(s, p), p.len()), n)))
                };
                drive_kind!(@rem $c, $kind, $dir, $exp, it, step, s, $ty, $has_rem);
            }
        }
    }};
    (@rem $c:ident, $kind:literal, $dir:expr, $exp:expr, $it:ident, $step:ident, $s:ident, $ty:ty, true) => {{
        // C01 monitor on the remainder as well
        let rem = |i: &$ty| { let r = i.remainder(); (loc_str($s, r), r.len()) };
        $c.drive($kind, $dir, $exp, $it, &$step, &rem);
    }};
}

fn both<'a>(rep: &mut Report, s: &'a str, d: &'a str) {
    let split: Vec<&str> = s.split(d).collect();
    let rsplit: Vec<&str> = s.rsplit(d).collect();
    let split_t: Vec<&str> = s.split_terminator(d).collect();
    // documented mirrored rule: rsplit without the empty piece that precedes a leading delimiter
    let mut rsplit_t = rsplit.clone();
    if rsplit_t.last() == Some(&"") {
        rsplit_t.pop();
    }
    // machinery self-check of that rule against the mirrored definition
    {
        let rs: String = s.chars().rev().collect();
        let rd: String = d.chars().rev().collect();
        let mirrored: Vec<String> = rs.split_terminator(rd.as_str()).map(|p| p.chars().rev().collect::<String>()).collect();
        let a: Vec<String> = rsplit_t.iter().map(|x| x.to_string()).collect();
        if a != mirrored {
            rep.machinery_errors.push(format!("rsplit_terminator reference disagrees with the mirrored definition on {s:?}/{d:?}: {a:?} vs {mirrored:?}"));
        }
    }
    {
        let mut c = Ctx { rep, s, d, dk: "str" };
        drive_kind!(c, "split", Dir::Fwd, &split, kst::split(s, d), kst::Split<'a, 'a, &'a str>, has_rem = true);
        drive_kind!(c, "rsplit", Dir::Bwd, &rsplit, kst::rsplit(s, d), kst::RSplit<'a, 'a, &'a str>, has_rem = true);
        drive_kind!(c, "split.rev", Dir::Bwd, &rsplit, kst::split(s, d).rev(), kst::RSplit<'a, 'a, &'a str>, has_rem = true);
        drive_kind!(c, "rsplit.rev", Dir::Fwd, &split, kst::rsplit(s, d).rev(), kst::Split<'a, 'a, &'a str>, has_rem = true);
        drive_kind!(c, "split.rev.rev", Dir::Fwd, &split, kst::split(s, d).rev().rev(), kst::Split<'a, 'a, &'a str>, has_rem = true);
        drive_kind!(c, "split_terminator", Dir::Fwd, &split_t, kst::split_terminator(s, d), kst::SplitTerminator<'a, 'a, &'a str>, has_rem = true);
        drive_kind!(c, "rsplit_terminator", Dir::Bwd, &rsplit_t, kst::rsplit_terminator(s, d), kst::RSplitTerminator<'a, 'a, &'a str>, has_rem = true);
        // back-stepping the forward type must equal the r-counterpart as well (that is what rev() is)
        match catch(|| kst::split(s, d)) {
            Err(_) => {}
            Ok(it) => {
                let step = |i: kst::Split<'a, 'a, &'a str>| catch(move || i.next_back().map(|(p, n)| (p.to_string(), (loc_str(s, p), p.len()), n)));
                let rem = |i: &kst::Split<'a, 'a, &'a str>| { let r = i.remainder(); (loc_str(s, r), r.len()) };
                c.drive("split(next_back)", Dir::Bwd, &rsplit, it, &step, &rem);
            }
        }
    }
    // char delimiter
    let mut ch = d.chars();
    if let (Some(dc), None) = (ch.next(), ch.next()) {
        let mut c = Ctx { rep, s, d, dk: "char" };
        drive_kind!(c, "split", Dir::Fwd, &split, kst::split(s, dc), kst::Split<'a, 'a, char>, has_rem = true);
        drive_kind!(c, "rsplit", Dir::Bwd, &rsplit, kst::rsplit(s, dc), kst::RSplit<'a, 'a, char>, has_rem = true);
        drive_kind!(c, "split.rev", Dir::Bwd, &rsplit, kst::split(s, dc).rev(), kst::RSplit<'a, 'a, char>, has_rem = true);
        drive_kind!(c, "rsplit.rev", Dir::Fwd, &split, kst::rsplit(s, dc).rev(), kst::Split<'a, 'a, char>, has_rem = true);
        drive_kind!(c, "split_terminator", Dir::Fwd, &split_t, kst::split_terminator(s, dc), kst::SplitTerminator<'a, 'a, char>, has_rem = true);
        drive_kind!(c, "rsplit_terminator", Dir::Bwd, &rsplit_t, kst::rsplit_terminator(s, dc), kst::RSplitTerminator<'a, 'a, char>, has_rem = true);
    }
    // non-trivial: delimiter occurs adjacent / leading / trailing / overlapping (more than 2 pieces or an empty piece)
    if !d.is_empty() && (split.len() > 2 && split.iter().any(|p| p.is_empty())) {
        rep.nontrivial(|| format!("split({s:?}, {d:?}) -> {split:?}"));
    }
}

pub fn run(tier: Tier, rep: &mut Report) -> (String, String) {
    let th = n_threads(tier);
    let mut bounds = String::new();
    let fams: Vec<(Vec<&str>, usize, usize)> = match tier {
        Tier::Quick => vec![(vec!["a", "b", "ñ"], 7, 3), (vec!["a", "ñ", "€", "😀"], 5, 2), (vec!["a", "b"], 9, 4)],
        Tier::Thorough => vec![(vec!["a", "b", "ñ"], 8, 4), (vec!["a", "ñ", "€", "😀"], 5, 3), (vec!["a", "b"], 11, 5)],
        Tier::Miri => vec![(vec!["a", "ñ"], 2, 1)],
    };
    for (atoms, sl, dl) in &fams {
        let ss = strings_over(atoms, *sl);
        let ds = strings_over(atoms, *dl);
        bounds += &format!("strings over {atoms:?}: inputs <= {sl} atoms ({}), delimiters <= {dl} atoms incl. \"\" ({}); ", ss.len(), ds.len());
        rep.merge(par_each(&ss, th, |s, r| {
            for d in &ds {
                both(r, s, d);
            }
            r.sample(|| format!("input {s:?} x all {} delimiters x 8 iterator kinds (str) / 6 (char)", ds.len()));
        }));
    }
    // long inputs (8..=9 bytes, t ..=10) over a delimiter, its two neighbours in value (d ^ 1 and d + 1) and a filler, with one-byte
    // delimiters: the shapes on which a word-at-a-time byte search differs from a byte loop (borrow into the next byte)
    if tier != Tier::Miri {
        let maxl = tier.pick(9, 10, 0);
        let ls: Vec<String> = strings_over(&[",", "-", "a"], maxl).into_iter().filter(|s| s.len() >= 8).collect();
        bounds += &format!("long family: all strings of 8..={maxl} bytes over [',', '-', 'a'] ({}) x delimiters [',', '-']; ", ls.len());
        rep.merge(par_each(&ls, th, |s, r| {
            both(r, s, ",");
            both(r, s, "-");
        }));
    }
    // boundary-complete chars as delimiter and as content
    let chars = char_set(if tier == Tier::Thorough { Tier::Quick } else { tier });
    let step = if tier == Tier::Miri { 40 } else { 1 };
    let cs: Vec<char> = chars.into_iter().step_by(step).collect();
    bounds += &format!("every char c of the boundary-complete set ({}) as delimiter in [c, c+a+c, a+c+c+b, x+c] and as content around 'a'", cs.len());
    rep.merge(par_each(&cs, th, |c, r| {
        let d = c.to_string();
        for s in [format!("{c}"), format!("{c}a{c}"), format!("a{c}{c}b"), format!("€{c}"), format!("{c}😀")] {
            both(r, &s, &d);
            both(r, &s, "a");
            both(r, &s, "");
        }
    }));
    (
        "state = (iterator kind, input, delimiter, number of steps taken); transition = one next(); every piece compared with str::split / rsplit / split_terminator (rsplit_terminator = rsplit minus a final empty piece, cross-checked against the mirrored definition) by content and, for non-empty pieces, by address; after every step remainder() must be, by address, the part of the input not yet handed out; reversed types must yield the r-counterpart's pieces; iteration must end within len+3 steps; non-trivial = more than two pieces with an empty piece (adjacent/leading/trailing/overlapping delimiters)".into(),
        bounds,
    )
}

pub fn replay(case: &str, rep: &mut Report) {
    let p: Vec<&str> = case.split('|').collect();
    let (s, d) = (unhexs(p[0]), unhexs(p[1]));
    both(rep, &s, &d);
}
