//! Shared machinery: enumerators, parallel partitioning, oracles, report/JSON writer.
#![allow(dead_code)]

use std::collections::BTreeSet;
use std::fmt::Write as _;
use std::panic::{catch_unwind, AssertUnwindSafe};

#[derive(Clone, Copy, PartialEq, Eq, Debug)]
pub enum Tier {
    Quick,
    Thorough,
    Miri,
}

impl Tier {
    pub fn pick<T>(self, quick: T, thorough: T, miri: T) -> T {
        match self {
            Tier::Quick => quick,
            Tier::Thorough => thorough,
            Tier::Miri => miri,
        }
    }
    pub fn name(self) -> &'static str {
        match self {
            Tier::Quick => "quick",
            Tier::Thorough => "thorough",
            Tier::Miri => "miri",
        }
    }
}

/// One violating case. `replay` is a compact engine-specific encoding that
/// `rt <ID> --replay-case <replay>` re-executes without the explorer.
#[derive(Clone, Debug)]
pub struct Violation {
    pub engine: String,
    pub func: String,
    pub replay: String,
    pub case: String,
    pub expected: String,
    pub observed: String,
}

#[derive(Default, Debug)]
pub struct Report {
    pub states: u64,
    pub transitions: u64,
    pub traces: u64,
    pub evaluations: u64,
    pub nontrivial: u64,
    pub range_checks: u64,
    pub utf8_checks: u64,
    pub outcomes: BTreeSet<u64>,
    pub samples: Vec<String>,
    pub nontrivial_samples: Vec<String>,
    pub violations: Vec<Violation>,
    pub violations_total: u64,
    pub notes: Vec<String>,
    pub caps_hit: Vec<String>,
    pub machinery_errors: Vec<String>,
    /// per sub-engine counters: name -> (states, transitions)
    pub engines: std::collections::BTreeMap<String, (u64, u64)>,
}

pub const MAX_SAMPLES: usize = 6;
pub const MAX_VIOLATIONS_KEPT: usize = 40;

pub fn hash64<T: std::hash::Hash>(t: &T) -> u64 {
    use std::hash::Hasher;
    // fixed-key hasher => deterministic across runs
    #[allow(deprecated)]
    let mut h = std::hash::SipHasher::new_with_keys(0x5eed, 0xc0de);
    t.hash(&mut h);
    h.finish()
}

impl Report {
    pub fn sample(&mut self, s: impl FnOnce() -> String) {
        if self.samples.len() < MAX_SAMPLES {
            self.samples.push(s());
        }
    }
    pub fn nontrivial(&mut self, s: impl FnOnce() -> String) {
        self.nontrivial += 1;
        if self.nontrivial_samples.len() < MAX_SAMPLES {
            self.nontrivial_samples.push(s());
        }
    }
    pub fn outcome<T: std::hash::Hash>(&mut self, t: &T) {
        if cfg!(miri) {
            return; // outcome statistics are meaningless (and very slow) under the interpreter
        }
        if self.outcomes.len() < 100_000 {
            self.outcomes.insert(hash64(t));
        }
    }
    /// keeps the MAX_VIOLATIONS_KEPT *shortest* violating cases (simplest counterexamples first)
    pub fn violation(&mut self, v: Violation) {
        self.violations_total += 1;
        self.keep(v);
    }
    fn keep(&mut self, v: Violation) {
        if self.violations.len() < MAX_VIOLATIONS_KEPT {
            self.violations.push(v);
        } else if let Some((i, longest)) = self.violations.iter().enumerate().max_by_key(|(_, x)| x.case.len()) {
            if v.case.len() < longest.case.len() {
                self.violations[i] = v;
            }
        }
    }
    pub fn eng(&mut self, name: &str, states: u64, transitions: u64) {
        let e = self.engines.entry(name.to_string()).or_insert((0, 0));
        e.0 += states;
        e.1 += transitions;
        self.states += states;
        self.transitions += transitions;
    }
    pub fn merge(&mut self, o: Report) {
        self.states += o.states;
        self.transitions += o.transitions;
        self.traces += o.traces;
        self.evaluations += o.evaluations;
        self.nontrivial += o.nontrivial;
        self.range_checks += o.range_checks;
        self.utf8_checks += o.utf8_checks;
        for x in o.outcomes {
            if self.outcomes.len() < 100_000 {
                self.outcomes.insert(x);
            }
        }
        for s in o.samples {
            if self.samples.len() < MAX_SAMPLES {
                self.samples.push(s);
            }
        }
        for s in o.nontrivial_samples {
            if self.nontrivial_samples.len() < MAX_SAMPLES {
                self.nontrivial_samples.push(s);
            }
        }
        self.violations_total += o.violations_total;
        for v in o.violations {
            self.keep(v);
        }
        self.notes.extend(o.notes);
        self.caps_hit.extend(o.caps_hit);
        self.machinery_errors.extend(o.machinery_errors);
        for (k, (s, t)) in o.engines {
            let e = self.engines.entry(k).or_insert((0, 0));
            e.0 += s;
            e.1 += t;
        }
    }

    pub fn to_json(&self, property: &str, tier: Tier, rule: &str, bounds: &str, wall_s: f64) -> String {
        let mut s = String::new();
        let _ = write!(s, "{{\"property\":{},\"tier\":{},", js(property), js(tier.name()));
        let _ = write!(
            s,
            "\"states\":{},\"transitions\":{},\"traces\":{},\"evaluations\":{},\"distinct_nontrivial\":{},",
            self.states, self.transitions, self.traces, self.evaluations, self.nontrivial
        );
        let _ = write!(
            s,
            "\"range_checks\":{},\"utf8_checks\":{},\"distinct_outcomes\":{},",
            self.range_checks,
            self.utf8_checks,
            self.outcomes.len()
        );
        let _ = write!(s, "\"rule\":{},\"bounds\":{},\"wall_s\":{:.3},", js(rule), js(bounds), wall_s);
        let _ = write!(s, "\"samples\":[{}],", self.samples.iter().map(|x| js(x)).collect::<Vec<_>>().join(","));
        let _ = write!(
            s,
            "\"nontrivial_samples\":[{}],",
            self.nontrivial_samples.iter().map(|x| js(x)).collect::<Vec<_>>().join(",")
        );
        let _ = write!(s, "\"notes\":[{}],", self.notes.iter().map(|x| js(x)).collect::<Vec<_>>().join(","));
        let _ = write!(s, "\"caps_hit\":[{}],", self.caps_hit.iter().map(|x| js(x)).collect::<Vec<_>>().join(","));
        let _ = write!(
            s,
            "\"machinery_errors\":[{}],",
            self.machinery_errors.iter().map(|x| js(x)).collect::<Vec<_>>().join(",")
        );
        let _ = write!(
            s,
            "\"engines\":{{{}}},",
            self.engines
                .iter()
                .map(|(k, (a, b))| format!("{}:{{\"states\":{},\"transitions\":{}}}", js(k), a, b))
                .collect::<Vec<_>>()
                .join(",")
        );
        let _ = write!(s, "\"violations_total\":{},\"violations\":[", self.violations_total);
        for (i, v) in self.violations.iter().enumerate() {
            if i > 0 {
                s.push(',');
            }
            let _ = write!(
                s,
                "{{\"engine\":{},\"func\":{},\"replay\":{},\"case\":{},\"expected\":{},\"observed\":{}}}",
                js(&v.engine),
                js(&v.func),
                js(&v.replay),
                js(&v.case),
                js(&v.expected),
                js(&v.observed)
            );
        }
        s.push_str("]}");
        s
    }
}

/// JSON string literal
pub fn js(x: &str) -> String {
    let mut s = String::with_capacity(x.len() + 2);
    s.push('"');
    for c in x.chars() {
        match c {
            '"' => s.push_str("\\\""),
            '\\' => s.push_str("\\\\"),
            '\n' => s.push_str("\\n"),
            '\r' => s.push_str("\\r"),
            '\t' => s.push_str("\\t"),
            c if (c as u32) < 0x20 => {
                let _ = write!(s, "\\u{:04x}", c as u32);
            }
            c => s.push(c),
        }
    }
    s.push('"');
    s
}

pub fn hex(b: &[u8]) -> String {
    let mut s = String::with_capacity(b.len() * 2);
    for x in b {
        let _ = write!(s, "{:02x}", x);
    }
    s
}
pub fn unhex(s: &str) -> Vec<u8> {
    (0..s.len() / 2).map(|i| u8::from_str_radix(&s[2 * i..2 * i + 2], 16).expect("hex")).collect()
}
pub fn hexs(s: &str) -> String {
    hex(s.as_bytes())
}
pub fn unhexs(s: &str) -> String {
    String::from_utf8(unhex(s)).expect("utf8 in replay")
}

// ---------------------------------------------------------------- enumerators

/// All concatenations of at most `max` atoms, simplest (shortest) first, deterministic order.
pub fn strings_over(atoms: &[&str], max: usize) -> Vec<String> {
    let mut out = vec![String::new()];
    let mut level = vec![String::new()];
    for _ in 0..max {
        let mut next = Vec::with_capacity(level.len() * atoms.len());
        for s in &level {
            for a in atoms {
                let mut t = s.clone();
                t.push_str(a);
                next.push(t);
            }
        }
        out.extend(next.iter().cloned());
        level = next;
    }
    // atoms may overlap ("a","aa"): dedupe while keeping first occurrence order
    let mut seen = std::collections::HashSet::new();
    out.retain(|s| seen.insert(s.clone()));
    out
}

pub fn bytes_over(alpha: &[u8], max: usize) -> Vec<Vec<u8>> {
    let mut out = vec![Vec::new()];
    let mut level = vec![Vec::new()];
    for _ in 0..max {
        let mut next = Vec::with_capacity(level.len() * alpha.len());
        for s in &level {
            for a in alpha {
                let mut t: Vec<u8> = s.clone();
                t.push(*a);
                next.push(t);
            }
        }
        out.extend(next.iter().cloned());
        level = next;
    }
    out
}

/// Index set straddling every comparison in the slicing code:
/// 0..=len+2 plus values around isize::MAX and usize::MAX.
pub fn index_set(len: usize) -> Vec<usize> {
    if cfg!(miri) {
        // interpreter tier: one value per comparison outcome
        let mut v = vec![0, len, len + 1, usize::MAX];
        if len > 1 {
            v.push(1);
        }
        v.sort();
        v.dedup();
        return v;
    }
    let mut v: Vec<usize> = (0..=len + 2).collect();
    v.extend_from_slice(&[
        isize::MAX as usize - 1,
        isize::MAX as usize,
        isize::MAX as usize + 1,
        usize::MAX - 1,
        usize::MAX,
    ]);
    v
}

// ---------------------------------------------------------------- parallel map

/// Partition `items` over the available cores (each item an independent
/// sub-exploration), run `f` into a per-thread Report, merge deterministically.
pub fn par_each<T: Sync>(items: &[T], threads: usize, f: impl Fn(&T, &mut Report) + Sync) -> Report {
    let threads = threads.max(1).min(items.len().max(1));
    let mut total = Report::default();
    if threads == 1 {
        for (i, it) in items.iter().enumerate() {
            if let Err(p) = catch(|| f(it, &mut total)) {
                escaped_panic(&mut total, &format!("while exploring item #{i}"), &p);
            }
        }
        return total;
    }
    let reports: Vec<Report> = wd_waiting(|| std::thread::scope(|sc| {
        let mut hs = Vec::new();
        for t in 0..threads {
            let f = &f;
            hs.push(sc.spawn(move || {
                let mut r = Report::default();
                // strided partition keeps simplest-first order inside each thread
                let mut i = t;
                while i < items.len() {
                    // a panic escaping an engine's own catch() is a hole in the harness: report it as such
                    if let Err(p) = catch(|| f(&items[i], &mut r)) {
                        escaped_panic(&mut r, &format!("while exploring item #{i}"), &p);
                    }
                    i += threads;
                }
                r
            }));
        }
        hs.into_iter().map(|h| h.join().expect("engine thread panicked (machinery)")).collect()
    }));
    for r in reports {
        total.merge(r);
    }
    total
}

pub fn n_threads(tier: Tier) -> usize {
    if tier == Tier::Miri {
        return 1;
    }
    std::env::var("VERIF_THREADS")
        .ok()
        .and_then(|s| s.parse().ok())
        .unwrap_or_else(|| std::thread::available_parallelism().map(|n| n.get()).unwrap_or(4))
}

// ---------------------------------------------------------------- panics

thread_local! {
    /// source location of the most recent panic on this thread (set by the panic hook)
    pub static LAST_PANIC_LOC: std::cell::RefCell<String> = const { std::cell::RefCell::new(String::new()) };
}

/// A panic escaped an engine's own catch(): the engine called konst where its reference model defines an ordinary
/// result for every explored case.  If the panic was raised inside konst's sources that is a wrong behaviour of the
/// code under test (verdict); if it was raised by the harness itself it is a hole in the harness (machinery).
pub fn escaped_panic(rep: &mut Report, ctx: &str, msg: &str) {
    let loc = LAST_PANIC_LOC.with(|c| c.borrow().clone());
    let in_konst = loc.contains("/konst/src/") || loc.contains("/konst_kernel/src/") || loc.contains("/konst_proc_macros/src/");
    // std panicking while it reads a string (char-boundary / UTF-8 checks in core::str, core::fmt, alloc::string): every
    // string the harness builds itself is valid, so the offending one was produced by the code under test
    let std_str = loc.starts_with("/rustc/") && (loc.contains("/core/src/str") || loc.contains("/core/src/fmt") || loc.contains("/alloc/src/str") || loc.contains("/alloc/src/string"))
        && (msg.contains("char boundary") || msg.contains("utf-8") || msg.contains("Utf8"));
    if in_konst {
        rep.violation(viol("escaped-panic", "engine", String::new(), format!("{ctx}: konst panicked where the reference model defines a result"), "no panic".into(), format!("panic at {loc}: {msg}")));
    } else if std_str {
        rep.violation(viol("escaped-panic", "engine", String::new(), format!("{ctx}: a string returned by konst is not valid UTF-8 / not cut on char boundaries"), "valid UTF-8".into(), format!("std panicked while reading it at {loc}: {msg}")));
    } else if rep.machinery_errors.len() < 5 {
        rep.machinery_errors.push(format!("uncaught panic {ctx} at {loc}: {msg}"));
    }
}

pub fn silence_panics() {
    // ordinary (unwinding) panics are expected outcomes and are caught by catch(); a panic that cannot unwind
    // (std's "unsafe precondition(s) violated" checks, panics in no-unwind contexts) aborts the process: say why.
    let show = std::env::var("VERIF_SHOW_PANICS").is_ok(); // debugging aid: print every panic with its location
    std::panic::set_hook(Box::new(move |info| {
        if show {
            eprintln!("panic: {info}");
        }
        let loc = info.location().map(|l| format!("{}:{}", l.file(), l.line())).unwrap_or_default();
        LAST_PANIC_LOC.with(|c| *c.borrow_mut() = loc);
        if let Some(m) = info.payload_as_str() {
            if m.contains("unsafe precondition") || m.contains("cannot unwind") || m.contains("non-unwinding") {
                eprintln!("NON-UNWINDING PANIC (process will abort): {m}");
            }
        }
    }));
}

// ---------------------------------------------------------------- watchdog (calls that never return)

const WD_SLOTS: usize = 256;
static WD_NEXT: std::sync::atomic::AtomicUsize = std::sync::atomic::AtomicUsize::new(0);
/// per thread (one cache line each): number of catch() entries + exits so far, current nesting depth, call site of the last entry
#[repr(align(128))]
struct WdSlot {
    seq: std::sync::atomic::AtomicU64,
    depth: std::sync::atomic::AtomicU64,
    site: std::sync::atomic::AtomicUsize,
}
static WD: [WdSlot; WD_SLOTS] = [const { WdSlot { seq: std::sync::atomic::AtomicU64::new(0), depth: std::sync::atomic::AtomicU64::new(0), site: std::sync::atomic::AtomicUsize::new(0) } }; WD_SLOTS];
thread_local! {
    static WD_SLOT: usize = WD_NEXT.fetch_add(1, std::sync::atomic::Ordering::Relaxed) % WD_SLOTS;
    /// (address of the last call site seen on this thread, its interned id)
    static WD_LAST_SITE: std::cell::Cell<(usize, usize)> = const { std::cell::Cell::new((0, 0)) };
}

/// Every call into konst runs inside catch(); a thread that sits inside one catch() without entering or leaving
/// another for `limit` seconds (default 120) is executing a call that does not return (the explored inputs are tiny: a call takes
/// microseconds).  The watchdog names the call site and ends the process with status 3; the driver turns that into a
/// verdict ("does not terminate"), not into a machinery failure.  Not used under the interpreter.
pub fn start_watchdog() {
    if cfg!(miri) {
        return;
    }
    let limit: u64 = std::env::var("VERIF_HANG_LIMIT").ok().and_then(|s| s.parse().ok()).unwrap_or(120);
    std::thread::spawn(move || {
        use std::sync::atomic::Ordering::Relaxed;
        let mut last: Vec<(u64, std::time::Instant)> = (0..WD_SLOTS).map(|_| (0, std::time::Instant::now())).collect();
        loop {
            std::thread::sleep(std::time::Duration::from_millis(500));
            for i in 0..WD_SLOTS {
                let (seq, depth) = (WD[i].seq.load(Relaxed), WD[i].depth.load(Relaxed));
                if seq != last[i].0 || depth == 0 {
                    last[i] = (seq, std::time::Instant::now());
                } else if last[i].1.elapsed().as_secs() >= limit {
                    let site = WD[i].site.load(Relaxed);
                    let loc = if site == 0 { "<unknown>".to_string() } else {
                        // SAFETY-free: the value was produced from a &'static Location
                        let l: &'static std::panic::Location<'static> = site_from(site);
                        format!("{}:{}", l.file(), l.line())
                    };
                    eprintln!("HANG-DETECTED: the call into konst entered at harness/{loc} has not returned for {limit}s (the explored inputs are tiny: the call does not terminate)");
                    std::process::exit(3);
                }
            }
        }
    });
}

static WD_SITES: std::sync::Mutex<Vec<&'static std::panic::Location<'static>>> = std::sync::Mutex::new(Vec::new());
/// call sites are interned (index + 1) so that no pointer cast is needed
fn site_id(l: &'static std::panic::Location<'static>) -> usize {
    let key = l as *const std::panic::Location<'static> as usize;
    let (k, id) = WD_LAST_SITE.with(|c| c.get());
    if k == key {
        return id; // the same call site as last time (the common case: a call in a loop)
    }
    let mut g = WD_SITES.lock().unwrap_or_else(|e| e.into_inner());
    let id = match g.iter().position(|x| std::ptr::eq(*x, l)) {
        Some(p) => p + 1,
        None => {
            g.push(l);
            g.len()
        }
    };
    WD_LAST_SITE.with(|c| c.set((key, id)));
    id
}
fn site_from(id: usize) -> &'static std::panic::Location<'static> {
    WD_SITES.lock().unwrap_or_else(|e| e.into_inner())[id - 1]
}

/// Ok(value) or Err(panic message)
#[track_caller]
pub fn catch<T>(f: impl FnOnce() -> T) -> Result<T, String> {
    use std::sync::atomic::Ordering::Relaxed;
    if cfg!(miri) {
        return catch_inner(f);
    }
    let w = &WD[WD_SLOT.with(|s| *s)];
    w.site.store(site_id(std::panic::Location::caller()), Relaxed);
    w.depth.store(w.depth.load(Relaxed) + 1, Relaxed);
    w.seq.store(w.seq.load(Relaxed) + 1, Relaxed);
    let r = catch_inner(f);
    w.depth.store(w.depth.load(Relaxed) - 1, Relaxed);
    w.seq.store(w.seq.load(Relaxed) + 1, Relaxed);
    r
}

/// catch() without watchdog accounting: for the wrappers under which a thread legitimately sits for a long time
/// (the main thread around a whole engine run)
pub fn catch_outer<T>(f: impl FnOnce() -> T) -> Result<T, String> {
    catch_inner(f)
}

/// the calling thread is about to block while worker threads explore: not "inside a call" for the watchdog
fn wd_waiting<T>(f: impl FnOnce() -> T) -> T {
    use std::sync::atomic::Ordering::Relaxed;
    if cfg!(miri) {
        return f();
    }
    let w = &WD[WD_SLOT.with(|s| *s)];
    let d = w.depth.swap(0, Relaxed);
    let r = f();
    w.depth.store(d, Relaxed);
    w.seq.store(w.seq.load(Relaxed) + 1, Relaxed);
    r
}

fn catch_inner<T>(f: impl FnOnce() -> T) -> Result<T, String> {
    match catch_unwind(AssertUnwindSafe(f)) {
        Ok(v) => Ok(v),
        Err(e) => Err(if let Some(s) = e.downcast_ref::<&str>() {
            s.to_string()
        } else if let Some(s) = e.downcast_ref::<String>() {
            s.clone()
        } else {
            "<panic>".to_string()
        }),
    }
}

// ---------------------------------------------------------------- location oracles (C01 monitor)

/// (offset in elements, len) of `child` inside `parent` if its address range lies inside; None otherwise.
/// For zero-sized element types the offset is reported as 0 when the addresses coincide.
pub fn locate<T>(parent: &[T], child: &[T]) -> Option<(usize, usize)> {
    let sz = std::mem::size_of::<T>();
    let p = parent.as_ptr() as usize;
    let c = child.as_ptr() as usize;
    if sz == 0 {
        return if child.len() <= parent.len() { Some((0, child.len())) } else { None };
    }
    if c < p || (c - p) % sz != 0 {
        return None;
    }
    let off = (c - p) / sz;
    if off + child.len() <= parent.len() {
        Some((off, child.len()))
    } else {
        None
    }
}

pub fn locate_str(parent: &str, child: &str) -> Option<(usize, usize)> {
    locate(parent.as_bytes(), child.as_bytes())
}

/// "Loc": how a returned slice is described for comparison: non-empty results by (offset,len)
/// inside the parent (None-location = outside => violation), empty results by emptiness only.
#[derive(Clone, Copy, PartialEq, Eq, Debug, Hash)]
pub enum Loc {
    Empty,
    At(usize, usize),
    Outside,
}

pub fn loc<T>(parent: &[T], child: &[T]) -> Loc {
    if child.is_empty() {
        Loc::Empty
    } else {
        match locate(parent, child) {
            Some((o, l)) => Loc::At(o, l),
            None => Loc::Outside,
        }
    }
}
pub fn loc_str(parent: &str, child: &str) -> Loc {
    loc(parent.as_bytes(), child.as_bytes())
}
/// expected location from a std result (std sub-slices are always inside the parent)
pub fn loc_exp<T>(parent: &[T], child: &[T]) -> Loc {
    loc(parent, child)
}

/// The C01 sub-string oracle: non-empty `child` lies inside `parent`, is valid UTF-8
/// and begins and ends on char boundaries of `parent`. Returns an error description.
pub fn substr_oracle(parent: &str, child: &str, rep: &mut Report) -> Result<(), String> {
    rep.utf8_checks += 1;
    if std::str::from_utf8(child.as_bytes()).is_err() {
        return Err(format!("returned str is not valid UTF-8: {:02x?}", child.as_bytes()));
    }
    if child.is_empty() {
        return Ok(());
    }
    rep.range_checks += 1;
    match locate_str(parent, child) {
        None => Err(format!(
            "returned non-empty str {:?} lies outside its argument {:?} (addr {:#x}+{} vs {:#x}+{})",
            child,
            parent,
            child.as_ptr() as usize,
            child.len(),
            parent.as_ptr() as usize,
            parent.len()
        )),
        Some((o, l)) => {
            if !parent.is_char_boundary(o) || !parent.is_char_boundary(o + l) {
                Err(format!("returned str [{}..{}] not on char boundaries of {:?}", o, o + l, parent))
            } else {
                Ok(())
            }
        }
    }
}

pub fn subslice_oracle<T>(parent: &[T], child: &[T], rep: &mut Report) -> Result<(), String> {
    if child.is_empty() {
        return Ok(());
    }
    rep.range_checks += 1;
    match locate(parent, child) {
        None => Err(format!(
            "returned non-empty slice (len {}) lies outside its argument (len {})",
            child.len(),
            parent.len()
        )),
        Some(_) => Ok(()),
    }
}

pub fn viol(engine: &str, func: &str, replay: String, case: String, expected: String, observed: String) -> Violation {
    Violation { engine: engine.to_string(), func: func.to_string(), replay, case, expected, observed }
}

// ---------------------------------------------------------------- char sets

/// Boundary-complete char set: quick = every 1- and 2-byte char (so every continuation byte value
/// 0x80..=0xBF under every 2-byte lead), the first and last char of every 3- and 4-byte lead byte,
/// the neighbours of the surrogate gap and a stride through the rest; thorough = every char.
pub fn char_set(tier: Tier) -> Vec<char> {
    let mut v: Vec<char> = Vec::new();
    match tier {
        Tier::Thorough => v.extend((0..=0x10FFFFu32).filter_map(char::from_u32)),
        Tier::Quick | Tier::Miri => {
            let two_byte_end = if tier == Tier::Miri { 0 } else { 0x800 };
            v.extend((0..two_byte_end).filter_map(char::from_u32));
            let mut edges: Vec<u32> = vec![0, 0x7F, 0x80, 0xBF, 0xFF, 0x7FF, 0xD7FF, 0xE000, 0xFFFF, 0x10000, 0x10FFFF];
            for lead in 0xE0u32..=0xEF {
                let lo = ((lead & 0xF) << 12).max(0x800);
                edges.extend([lo, lo + 0x3F, lo + 0x40, (((lead & 0xF) + 1) << 12) - 1]);
            }
            for lead in 0xF0u32..=0xF4 {
                let lo = ((lead & 0x7) << 18).max(0x10000);
                let hi = ((((lead & 0x7) + 1) << 18) - 1).min(0x10FFFF);
                edges.extend([lo, lo + 0x3F, lo + 0xFFF, hi]);
            }
            v.extend(edges.into_iter().filter_map(char::from_u32));
            if tier == Tier::Quick {
                v.extend((0x800..=0x10FFFFu32).step_by(257).filter_map(char::from_u32));
            }
        }
    }
    v.sort();
    v.dedup();
    v
}
pub fn char_set_desc(tier: Tier) -> &'static str {
    match tier {
        Tier::Thorough => "every Unicode scalar value",
        Tier::Quick => "every 1-/2-byte char, first/last char of every 3-/4-byte lead byte, surrogate-gap neighbours, stride 257 through the rest",
        Tier::Miri => "edges only",
    }
}

/// first and last char encoded with each lead byte at a class boundary (ASCII, 0xC2, 0xDF, 0xE0, 0xE1, 0xEC..=0xEF, 0xF0, 0xF1, 0xF3, 0xF4)
pub fn lead_byte_edge_chars() -> Vec<char> {
    let mut v: Vec<u32> = vec![0x00, 0x7F];
    for lead in [0xC2u32, 0xDF] {
        let lo = (lead & 0x1F) << 6;
        v.extend([lo, lo + 0x3F]);
    }
    for lead in [0xE0u32, 0xE1, 0xEC, 0xED, 0xEE, 0xEF] {
        let lo = ((lead & 0xF) << 12).max(0x800);
        let hi = if lead == 0xED { 0xD7FF } else { ((lead & 0xF) << 12) + 0xFFF };
        v.extend([lo, hi]);
    }
    for lead in [0xF0u32, 0xF1, 0xF3, 0xF4] {
        let lo = ((lead & 7) << 18).max(0x10000);
        let hi = (((lead & 7) << 18) + 0x3FFFF).min(0x10FFFF);
        v.extend([lo, hi]);
    }
    v.into_iter().filter_map(char::from_u32).collect()
}

/// larger Miri bounds for the thorough tier (VERIF_MIRI_DEEP=1)
pub fn miri_deep() -> bool {
    std::env::var("VERIF_MIRI_DEEP").map_or(false, |v| v == "1")
}
