//! Shared machinery: enumerators, parallel partitioning, oracles, report/JSON writer.
#![allow(dead_code)]

use std::collections::BTreeSet;
use std::fmt::Write as _;
use std::panic::{catch_unwind, AssertUnwindSafe};

#[derive(Clone, Copy, PartialEq, Eq, Debug)]
pub enum Tier {
    Quick,
    Thorough,
    Miri,
}

impl Tier {
    pub fn pick<T>(self, quick: T, thorough: T, miri: T) -> T {
        match self {
            Tier::Quick => quick,
            Tier::Thorough => thorough,
            Tier::Miri => miri,
        }
    }
    pub fn name(self) -> &'static str {
        match self {
            Tier::Quick => "quick",
            Tier::Thorough => "thorough",
            Tier::Miri => "miri",
        }
    }
}

/// One violating case. `replay` is a compact engine-specific encoding that
/// `rt <ID> --replay-case <replay>` re-executes without the explorer.
#[derive(Clone, Debug)]
pub struct Violation {
    pub engine: String,
    pub func: String,
    pub replay: String,
    pub case: String,
    pub expected: String,
    pub observed: String,
}

#[derive(Default, Debug)]
pub struct Report {
    pub states: u64,
    pub transitions: u64,
    pub traces: u64,
    pub evaluations: u64,
    pub nontrivial: u64,
    pub range_checks: u64,
    pub utf8_checks: u64,
    pub outcomes: BTreeSet<u64>,
    pub samples: Vec<String>,
    pub nontrivial_samples: Vec<String>,
    pub violations: Vec<Violation>,
    pub violations_total: u64,
    pub notes: Vec<String>,
    pub caps_hit: Vec<String>,
    pub machinery_errors: Vec<String>,
    /// per sub-engine counters: name -> (states, transitions)
    pub engines: std::collections::BTreeMap<String, (u64, u64)>,
}

pub const MAX_SAMPLES: usize = 6;
pub const MAX_VIOLATIONS_KEPT: usize = 40;

pub fn hash64<T: std::hash::Hash>(t: &T) -> u64 {
    use std::hash::Hasher;
    // fixed-key hasher => deterministic across runs
    #[allow(deprecated)]
    let mut h = std::hash::SipHasher::new_with_keys(0x5eed, 0xc0de);
    t.hash(&mut h);
    h.finish()
}

impl Report {
    pub fn sample(&mut self, s: impl FnOnce() -> String) {
        if self.samples.len() < MAX_SAMPLES {
            self.samples.push(s());
        }
    }
    pub fn nontrivial(&mut self, s: impl FnOnce() -> String) {
        self.nontrivial += 1;
        if self.nontrivial_samples.len() < MAX_SAMPLES {
            self.nontrivial_samples.push(s());
        }
    }
    pub fn outcome<T: std::hash::Hash>(&mut self, t: &T) {
        if cfg!(miri) {
            return; // outcome statistics are meaningless (and very slow) under the interpreter
        }
        if self.outcomes.len() < 100_000 {
            self.outcomes.insert(hash64(t));
        }
    }
    /// keeps the MAX_VIOLATIONS_KEPT *shortest* violating cases (simplest counterexamples first)
    pub fn violation(&mut self, v: Violation) {
        self.violations_total += 1;
        self.keep(v);
    }
    fn keep(&mut self, v: Violation) {
        if self.violations.len() < MAX_VIOLATIONS_KEPT {
            self.violations.push(v);
        } else if let Some((i, longest)) = self.violations.iter().enumerate().max_by_key(|(_, x)| x.case.len()) {
            if v.case.len() < longest.case.len() {
                self.violations[i] = v;
            }
        }
    }
    pub fn eng(&mut self, name: &str, states: u64, transitions: u64) {
        let e = self.engines.entry(name.to_string()).or_insert((0, 0));
        e.0 += states;
        e.1 += transitions;
        self.states += states;
        self.transitions += transitions;
    }
    pub fn merge(&mut self, o: Report) {
        self.states += o.states;
        self.transitions += o.transitions;
        self.traces += o.traces;
        self.evaluations += o.evaluations;
        self.nontrivial += o.nontrivial;
        self.range_checks += o.range_checks;
        self.utf8_checks += o.utf8_checks;
        for x in o.outcomes {
            if self.outcomes.len() < 100_000 {
                self.outcomes.insert(x);
            }
        }
        for s in o.samples {
            if self.samples.len() < MAX_SAMPLES {
                self.samples.push(s);
            }
        }
        for s in o.nontrivial_samples {
            if self.nontrivial_samples.len() < MAX_SAMPLES {
                self.nontrivial_samples.push(s);
            }
        }
        self.violations_total += o.violations_total;
        for v in o.violations {
            self.keep(v);
        }
        self.notes.extend(o.notes);
        self.caps_hit.extend(o.caps_hit);
        self.machinery_errors.extend(o.machinery_errors);
        for (k, (s, t)) in o.engines {
            let e = self.engines.entry(k).or_insert((0, 0));
            e.0 += s;
            e.1 += t;
        }
    }

    pub fn to_json(&self, property: &str, tier: Tier, rule: &str, bounds: &str, wall_s: f64) -> String {
        let mut s = String::new();
        let _ = write!(s, "{{\"property\":{},\"tier\":{},", js(property), js(tier.name()));
        let _ = write!(
            s,
            "\"states\":{},\"transitions\":{},\"traces\":{},\"evaluations\":{},\"distinct_nontrivial\":{},",
            self.states, self.transitions, self.traces, self.evaluations, self.nontrivial
        );
        let _ = write!(
            s,
            "\"range_checks\":{},\"utf8_checks\":{},\"distinct_outcomes\":{},",
            self.range_checks,
            self.utf8_checks,
            self.outcomes.len()
        );
        let _ = write!(s, "\"rule\":{},\"bounds\":{},\"wall_s\":{:.3},", js(rule), js(bounds), wall_s);
        let _ = write!(s, "\"samples\":[{}],", self.samples.iter().map(|x| js(x)).collect::<Vec<_>>().join(","));
        let _ = write!(
            s,
            "\"nontrivial_samples\":[{}],",
            self.nontrivial_samples.iter().map(|x| js(x)).collect::<Vec<_>>().join(",")
        );
        let _ = write!(s, "\"notes\":[{}],", self.notes.iter().map(|x| js(x)).collect::<Vec<_>>().join(","));
        let _ = write!(s, "\"caps_hit\":[{}],", self.caps_hit.iter().map(|x| js(x)).collect::<Vec<_>>().join(","));
        let _ = write!(
            s,
            "\"machinery_errors\":[{}],",
            self.machinery_errors.iter().map(|x| js(x)).collect::<Vec<_>>().join(",")
        );
        let _ = write!(
            s,
            "\"engines\":{{{}}},",
            self.engines
                .iter()
                .map(|(k, (a, b))| format!("{}:{{\"states\":{},\"transitions\":{}}}", js(k), a, b))
                .collect::<Vec<_>>()
                .join(",")
        );
        let _ = write!(s, "\"violations_total\":{},\"violations\":[", self.violations_total);
        for (i, v) in self.violations.iter().enumerate() {
            if i > 0 {
                s.push(',');
            }
            let _ = write!(
                s,
                "{{\"engine\":{},\"func\":{},\"replay\":{},\"case\":{},\"expected\":{},\"observed\":{}}}",
                js(&v.engine),
                js(&v.func),
                js(&v.replay),
                js(&v.case),
                js(&v.expected),
                js(&v.observed)
            );
        }
        s.push_str("]}");
        s
    }
}

/// JSON string literal
pub fn js(x: &str) -> String {
    let mut s = String::with_capacity(x.len() + 2);
    s.push('"');
    for c in x.chars() {
        match c {
            '"' => s.push_str("\\\""),
            '\\' => s.push_str("\\\\"),
            '\n' => s.push_str("\\n"),
            '\r' => s.push_str("\\r"),
            '\t' => s.push_str("\\t"),
            c if (c as u32) < 0x20 => {
                let _ = write!(s, "\\u{:04x}", c as u32);
            }
            c => s.push(c),
        }
    }
    s.push('"');
    s
}

pub fn hex(b: &[u8]) -> String {
    let mut s = String::with_capacity(b.len() * 2);
    for x in b {
        let _ = write!(s, "{:02x}", x);
    }
    s
}
pub fn unhex(s: &str) -> Vec<u8> {
    (0..s.len() / 2).map(|i| u8::from_str_radix(&s[2 * i..2 * i + 2], 16).expect("hex")).collect()
}
pub fn hexs(s: &str) -> String {
    hex(s.as_bytes())
}
pub fn unhexs(s: &str) -> String {
    String::from_utf8(unhex(s)).expect("utf8 in replay")
}

// ---------------------------------------------------------------- enumerators

/// All concatenations of at most `max` atoms, simplest (shortest) first, deterministic order.
pub fn strings_over(atoms: &[&str], max: usize) -> Vec<String> {
    let mut out = vec![String::new()];
    let mut level = vec![String::new()];
    for _ in 0..max {
        let mut next = Vec::with_capacity(level.len() * atoms.len());
        for s in &level {
            for a in atoms {
                let mut t = s.clone();
                t.push_str(a);
                next.push(t);
            }
        }
        out.extend(next.iter().cloned());
        level = next;
    }
    // atoms may overlap ("a","aa"): dedupe while keeping first occurrence order
    let mut seen = std::collections::HashSet::new();
    out.retain(|s| seen.insert(s.clone()));
    out
}

pub fn bytes_over(alpha: &[u8], max: usize) -> Vec<Vec<u8>> {
    let mut out = vec![Vec::new()];
    let mut level = vec![Vec::new()];
    for _ in 0..max {
        let mut next = Vec::with_capacity(level.len() * alpha.len());
        for s in &level {
            for a in alpha {
                let mut t: Vec<u8> = s.clone();
                t.push(*a);
                next.push(t);
            }
        }
        out.extend(next.iter().cloned());
        level = next;
    }
    out
}

/// Index set straddling every comparison in the slicing code:
/// 0..=len+2 plus values around isize::MAX and usize::MAX.
pub fn index_set(len: usize) -> Vec<usize> {
    if cfg!(miri) {
        // interpreter tier: one value per comparison outcome
        let mut v = vec![0, len, len + 1, usize::MAX];
        if len > 1 {
            v.push(1);
        }
        v.sort();
        v.dedup();
        return v;
    }
    let mut v: Vec<usize> = (0..=len + 2).collect();
    v.extend_from_slice(&[
        isize::MAX as usize - 1,
        isize::MAX as usize,
        isize::MAX as usize + 1,
        usize::MAX - 1,
        usize::MAX,
    ]);
    v
}

// ---------------------------------------------------------------- parallel map

/// Partition `items` over the available cores (each item an independent
/// sub-exploration), run `f` into a per-thread Report, merge deterministically.
pub fn par_each<T: Sync>(items: &[T], threads: usize, f: impl Fn(&T, &mut Report) + Sync) -> Report {
    let threads = threads.max(1).min(items.len().max(1));
    let mut total = Report::default();
    if threads == 1 {
        for it in items {
            f(it, &mut total);
        }
        return total;
    }
    let reports: Vec<Report> = std::thread::scope(|sc| {
        let mut hs = Vec::new();
        for t in 0..threads {
            let f = &f;
            hs.push(sc.spawn(move || {
                let mut r = Report::default();
                // strided partition keeps simplest-first order inside each thread
                let mut i = t;
                while i < items.len() {
                    // a panic escaping an engine's own catch() is a hole in the harness: report it as such
                    if let Err(p) = catch(|| f(&items[i], &mut r)) {
                        if r.machinery_errors.len() < 5 {
                            r.machinery_errors.push(format!("uncaught panic while exploring item #{i}: {p}"));
                        }
                    }
                    i += threads;
                }
                r
            }));
        }
        hs.into_iter().map(|h| h.join().expect("engine thread panicked (machinery)")).collect()
    });
    for r in reports {
        total.merge(r);
    }
    total
}

pub fn n_threads(tier: Tier) -> usize {
    if tier == Tier::Miri {
        return 1;
    }
    std::env::var("VERIF_THREADS")
        .ok()
        .and_then(|s| s.parse().ok())
        .unwrap_or_else(|| std::thread::available_parallelism().map(|n| n.get()).unwrap_or(4))
}

// ---------------------------------------------------------------- panics

pub fn silence_panics() {
    // ordinary (unwinding) panics are expected outcomes and are caught by catch(); a panic that cannot unwind
    // (std's "unsafe precondition(s) violated" checks, panics in no-unwind contexts) aborts the process: say why.
    std::panic::set_hook(Box::new(|info| {
        if let Some(m) = info.payload_as_str() {
            if m.contains("unsafe precondition") || m.contains("cannot unwind") || m.contains("non-unwinding") {
                eprintln!("NON-UNWINDING PANIC (process will abort): {m}");
            }
        }
    }));
}

/// Ok(value) or Err(panic message)
pub fn catch<T>(f: impl FnOnce() -> T) -> Result<T, String> {
    match catch_unwind(AssertUnwindSafe(f)) {
        Ok(v) => Ok(v),
        Err(e) => Err(if let Some(s) = e.downcast_ref::<&str>() {
            s.to_string()
        } else if let Some(s) = e.downcast_ref::<String>() {
            s.clone()
        } else {
            "<panic>".to_string()
        }),
    }
}

// ---------------------------------------------------------------- location oracles (C01 monitor)

/// (offset in elements, len) of `child` inside `parent` if its address range lies inside; None otherwise.
/// For zero-sized element types the offset is reported as 0 when the addresses coincide.
pub fn locate<T>(parent: &[T], child: &[T]) -> Option<(usize, usize)> {
    let sz = std::mem::size_of::<T>();
    let p = parent.as_ptr() as usize;
    let c = child.as_ptr() as usize;
    if sz == 0 {
        return if child.len() <= parent.len() { Some((0, child.len())) } else { None };
    }
    if c < p || (c - p) % sz != 0 {
        return None;
    }
    let off = (c - p) / sz;
    if off + child.len() <= parent.len() {
        Some((off, child.len()))
    } else {
        None
    }
}

pub fn locate_str(parent: &str, child: &str) -> Option<(usize, usize)> {
    locate(parent.as_bytes(), child.as_bytes())
}

/// "Loc": how a returned slice is described for comparison: non-empty results by (offset,len)
/// inside the parent (None-location = outside => violation), empty results by emptiness only.
#[derive(Clone, Copy, PartialEq, Eq, Debug, Hash)]
pub enum Loc {
    Empty,
    At(usize, usize),
    Outside,
}

pub fn loc<T>(parent: &[T], child: &[T]) -> Loc {
    if child.is_empty() {
        Loc::Empty
    } else {
        match locate(parent, child) {
            Some((o, l)) => Loc::At(o, l),
            None => Loc::Outside,
        }
    }
}
pub fn loc_str(parent: &str, child: &str) -> Loc {
    loc(parent.as_bytes(), child.as_bytes())
}
/// expected location from a std result (std sub-slices are always inside the parent)
pub fn loc_exp<T>(parent: &[T], child: &[T]) -> Loc {
    loc(parent, child)
}

/// The C01 sub-string oracle: non-empty `child` lies inside `parent`, is valid UTF-8
/// and begins and ends on char boundaries of `parent`. Returns an error description.
pub fn substr_oracle(parent: &str, child: &str, rep: &mut Report) -> Result<(), String> {
    rep.utf8_checks += 1;
    if std::str::from_utf8(child.as_bytes()).is_err() {
        return Err(format!("returned str is not valid UTF-8: {:02x?}", child.as_bytes()));
    }
    if child.is_empty() {
        return Ok(());
    }
    rep.range_checks += 1;
    match locate_str(parent, child) {
        None => Err(format!(
            "returned non-empty str {:?} lies outside its argument {:?} (addr {:#x}+{} vs {:#x}+{})",
            child,
            parent,
            child.as_ptr() as usize,
            child.len(),
            parent.as_ptr() as usize,
            parent.len()
        )),
        Some((o, l)) => {
            if !parent.is_char_boundary(o) || !parent.is_char_boundary(o + l) {
                Err(format!("returned str [{}..{}] not on char boundaries of {:?}", o, o + l, parent))
            } else {
                Ok(())
            }
        }
    }
}

pub fn subslice_oracle<T>(parent: &[T], child: &[T], rep: &mut Report) -> Result<(), String> {
    if child.is_empty() {
        return Ok(());
    }
    rep.range_checks += 1;
    match locate(parent, child) {
        None => Err(format!(
            "returned non-empty slice (len {}) lies outside its argument (len {})",
            child.len(),
            parent.len()
        )),
        Some(_) => Ok(()),
    }
}

pub fn viol(engine: &str, func: &str, replay: String, case: String, expected: String, observed: String) -> Violation {
    Violation { engine: engine.to_string(), func: func.to_string(), replay, case, expected, observed }
}

// ---------------------------------------------------------------- char sets

/// Boundary-complete char set: quick = every 1- and 2-byte char (so every continuation byte value
/// 0x80..=0xBF under every 2-byte lead), the first and last char of every 3- and 4-byte lead byte,
/// the neighbours of the surrogate gap and a stride through the rest; thorough = every char.
pub fn char_set(tier: Tier) -> Vec<char> {
    let mut v: Vec<char> = Vec::new();
    match tier {
        Tier::Thorough => v.extend((0..=0x10FFFFu32).filter_map(char::from_u32)),
        Tier::Quick | Tier::Miri => {
            let two_byte_end = if tier == Tier::Miri { 0 } else { 0x800 };
            v.extend((0..two_byte_end).filter_map(char::from_u32));
            let mut edges: Vec<u32> = vec![0, 0x7F, 0x80, 0xBF, 0xFF, 0x7FF, 0xD7FF, 0xE000, 0xFFFF, 0x10000, 0x10FFFF];
            for lead in 0xE0u32..=0xEF {
                let lo = ((lead & 0xF) << 12).max(0x800);
                edges.extend([lo, lo + 0x3F, lo + 0x40, (((lead & 0xF) + 1) << 12) - 1]);
            }
            for lead in 0xF0u32..=0xF4 {
                let lo = ((lead & 0x7) << 18).max(0x10000);
                let hi = ((((lead & 0x7) + 1) << 18) - 1).min(0x10FFFF);
                edges.extend([lo, lo + 0x3F, lo + 0xFFF, hi]);
            }
            v.extend(edges.into_iter().filter_map(char::from_u32));
            if tier == Tier::Quick {
                v.extend((0x800..=0x10FFFFu32).step_by(257).filter_map(char::from_u32));
            }
        }
    }
    v.sort();
    v.dedup();
    v
}
pub fn char_set_desc(tier: Tier) -> &'static str {
    match tier {
        Tier::Thorough => "every Unicode scalar value",
        Tier::Quick => "every 1-/2-byte char, first/last char of every 3-/4-byte lead byte, surrogate-gap neighbours, stride 257 through the rest",
        Tier::Miri => "edges only",
    }
}

/// larger Miri bounds for the thorough tier (VERIF_MIRI_DEEP=1)
pub fn miri_deep() -> bool {
    std::env::var("VERIF_MIRI_DEEP").map_or(false, |v| v == "1")
}
