//! `rt <ID> --tier quick|thorough|miri --out <file>`   run the bounded-exhaustive engine(s) of one property
//! `rt <ID> --replay-case <encoded case>`             re-execute one recorded case without the explorer
//!
//! Exit status: 0 = engine ran (verdict is in the report), 2 = machinery error.
//! The python driver `/verif/check` turns the report into evidence / VIOLATION lines.

mod common;
mod c01;
mod c02;
mod c03;
mod c04;
mod c05;
mod c06;
mod c07;
mod c08;
mod c09;
mod c12;
mod c13;
mod c15;
mod tree;
mod c16;
mod c20;

use common::*;

fn main() {
    let args: Vec<String> = std::env::args().collect();
    if args.len() < 2 {
        eprintln!("usage: rt <ID> --tier T --out F | rt <ID> --replay-case C");
        std::process::exit(2);
    }
    let id = args[1].as_str();
    let mut tier = Tier::Quick;
    let mut out: Option<String> = None;
    let mut replay: Option<String> = None;
    let mut i = 2;
    while i < args.len() {
        match args[i].as_str() {
            "--tier" => {
                tier = match args[i + 1].as_str() {
                    "quick" => Tier::Quick,
                    "thorough" => Tier::Thorough,
                    "miri" => Tier::Miri,
                    x => {
                        eprintln!("bad tier {x}");
                        std::process::exit(2)
                    }
                };
                i += 2;
            }
            "--out" => {
                out = Some(args[i + 1].clone());
                i += 2;
            }
            "--replay-case" => {
                replay = Some(args[i + 1].clone());
                i += 2;
            }
            // cargo-miri replays the *build-time* environment at run time, so run-time selections must come through argv
            "--engines" => {
                std::env::set_var("VERIF_C01_ENGINES", &args[i + 1]);
                i += 2;
            }
            "--deep" => {
                std::env::set_var("VERIF_MIRI_DEEP", "1");
                i += 1;
            }
            x => {
                eprintln!("bad arg {x}");
                std::process::exit(2)
            }
        }
    }
    silence_panics();
    let t0 = std::time::Instant::now();
    let mut rep = Report::default();
    let (rule, bounds): (String, String) = if let Some(case) = &replay {
        match id {
            "C01" => c01::replay(case, &mut rep),
            "C02" => c02::replay(case, &mut rep),
            "C03" => c03::replay(case, &mut rep),
            "C04" => c04::replay(case, &mut rep),
            "C05" => c05::replay(case, &mut rep),
            "C06" => c06::replay(case, &mut rep),
            "C07" => c07::replay(case, &mut rep),
            "C08" => c08::replay(case, &mut rep),
            "C09" => c09::replay(case, &mut rep),
            "C12" => c12::replay(case, &mut rep),
            "C15" | "C11" => c15::replay(id, case, &mut rep),
            "C13" | "C14" => c13::replay(id, case, &mut rep),
            "C16" => c16::replay(case, &mut rep),
            "C20" => c20::replay(case, &mut rep),
            _ => {
                eprintln!("no replay for {id}");
                std::process::exit(2)
            }
        }
        ("replay of one recorded case".into(), case.clone())
    } else {
        match id {
            "C01" => c01::run(tier, &mut rep),
            "C02" => c02::run(tier, &mut rep),
            "C03" => c03::run(tier, &mut rep),
            "C04" => c04::run(tier, &mut rep),
            "C05" => c05::run(tier, &mut rep),
            "C06" => c06::run(tier, &mut rep),
            "C07" => c07::run(tier, &mut rep),
            "C08" => c08::run(tier, &mut rep),
            "C09" => c09::run(tier, &mut rep),
            "C12" => c12::run(tier, &mut rep),
            "C15" | "C11" => c15::run(id, tier, &mut rep),
            "C13" | "C14" => c13::run(id, tier, &mut rep),
            "C16" => c16::run(tier, &mut rep),
            "C20" => c20::run(tier, &mut rep),
            _ => {
                eprintln!("unknown property {id}");
                std::process::exit(2)
            }
        }
    };
    let json = rep.to_json(id, tier, &rule, &bounds, t0.elapsed().as_secs_f64());
    match out {
        Some(f) => std::fs::write(&f, json).expect("write report"),
        None => println!("{json}"),
    }
    if !rep.machinery_errors.is_empty() {
        for e in &rep.machinery_errors {
            eprintln!("MACHINERY: {e}");
        }
        std::process::exit(2);
    }
}
