//! `rt <ID> --tier quick|thorough|miri --out <file>`   run the bounded-exhaustive engine(s) of one property
//! `rt <ID> --replay-case <encoded case>`             re-execute one recorded case without the explorer
//!
//! Exit status: 0 = engine ran (verdict is in the report), 2 = machinery error.
//! The python driver `/verif/check` turns the report into evidence / VIOLATION lines.

mod common;
#[cfg(feature = "e01")]
mod c01;
#[cfg(all(feature = "e01", feature = "misc_macros"))]
mod c01m;
#[cfg(feature = "e02")]
mod c02;
#[cfg(feature = "e03")]
mod c03;
#[cfg(feature = "e04")]
mod c04;
#[cfg(feature = "e05")]
mod c05;
#[cfg(feature = "e06")]
mod c06;
#[cfg(feature = "e07")]
mod c07;
#[cfg(feature = "e08")]
mod c08;
#[cfg(feature = "e09")]
mod c09;
#[cfg(feature = "e12")]
mod c12;
#[cfg(feature = "e13")]
mod c13;
#[cfg(feature = "e15")]
mod c15;
#[cfg(feature = "e15")]
mod c15z;
mod tree;
#[cfg(feature = "e16")]
mod c16;
#[cfg(feature = "e20")]
mod c20;

use common::*;

fn main() {
    let args: Vec<String> = std::env::args().collect();
    if args.len() < 2 {
        eprintln!("usage: rt <ID> --tier T --out F | rt <ID> --replay-case C");
        std::process::exit(2);
    }
    let id = args[1].as_str();
    let mut tier = Tier::Quick;
    let mut out: Option<String> = None;
    let mut replay: Option<String> = None;
    let mut i = 2;
    while i < args.len() {
        match args[i].as_str() {
            "--tier" => {
                tier = match args[i + 1].as_str() {
                    "quick" => Tier::Quick,
                    "thorough" => Tier::Thorough,
                    "miri" => Tier::Miri,
                    x => {
                        eprintln!("bad tier {x}");
                        std::process::exit(2)
                    }
                };
                i += 2;
            }
            "--out" => {
                out = Some(args[i + 1].clone());
                i += 2;
            }
            "--replay-case" => {
                replay = Some(args[i + 1].clone());
                i += 2;
            }
            // cargo-miri replays the *build-time* environment at run time, so run-time selections must come through argv
            "--engines" => {
                std::env::set_var("VERIF_C01_ENGINES", &args[i + 1]);
                i += 2;
            }
            "--deep" => {
                std::env::set_var("VERIF_MIRI_DEEP", "1");
                i += 1;
            }
            x => {
                eprintln!("bad arg {x}");
                std::process::exit(2)
            }
        }
    }
    silence_panics();
    start_watchdog();
    let t0 = std::time::Instant::now();
    let mut rep = Report::default();
    let (rule, bounds): (String, String) = if let Some(case) = &replay {
        match id {
            #[cfg(feature = "e01")]
            "C01" => c01::replay(case, &mut rep),
            #[cfg(feature = "e02")]
            "C02" => c02::replay(case, &mut rep),
            #[cfg(feature = "e03")]
            "C03" => c03::replay(case, &mut rep),
            #[cfg(feature = "e04")]
            "C04" => c04::replay(case, &mut rep),
            #[cfg(feature = "e05")]
            "C05" => c05::replay(case, &mut rep),
            #[cfg(feature = "e06")]
            "C06" => c06::replay(case, &mut rep),
            #[cfg(feature = "e07")]
            "C07" => c07::replay(case, &mut rep),
            #[cfg(feature = "e08")]
            "C08" => c08::replay(case, &mut rep),
            #[cfg(feature = "e09")]
            "C09" => c09::replay(case, &mut rep),
            #[cfg(feature = "e12")]
            "C12" => c12::replay(case, &mut rep),
            #[cfg(feature = "e15")]
            "C15" | "C11" => c15::replay(id, case, &mut rep),
            #[cfg(feature = "e13")]
            "C13" | "C14" => c13::replay(id, case, &mut rep),
            #[cfg(feature = "e16")]
            "C16" => c16::replay(case, &mut rep),
            #[cfg(feature = "e20")]
            "C20" => c20::replay(case, &mut rep),
            _ => {
                eprintln!("no replay for {id}");
                std::process::exit(2)
            }
        }
        ("replay of one recorded case".into(), case.clone())
    } else {
        let run = std::panic::AssertUnwindSafe(|| match id {
            #[cfg(feature = "e01")]
            "C01" => c01::run(tier, &mut rep),
            #[cfg(feature = "e02")]
            "C02" => c02::run(tier, &mut rep),
            #[cfg(feature = "e03")]
            "C03" => c03::run(tier, &mut rep),
            #[cfg(feature = "e04")]
            "C04" => c04::run(tier, &mut rep),
            #[cfg(feature = "e05")]
            "C05" => c05::run(tier, &mut rep),
            #[cfg(feature = "e06")]
            "C06" => c06::run(tier, &mut rep),
            #[cfg(feature = "e07")]
            "C07" => c07::run(tier, &mut rep),
            #[cfg(feature = "e08")]
            "C08" => c08::run(tier, &mut rep),
            #[cfg(feature = "e09")]
            "C09" => c09::run(tier, &mut rep),
            #[cfg(feature = "e12")]
            "C12" => c12::run(tier, &mut rep),
            #[cfg(feature = "e15")]
            "C15" | "C11" => c15::run(id, tier, &mut rep),
            #[cfg(feature = "e13")]
            "C13" | "C14" => c13::run(id, tier, &mut rep),
            #[cfg(feature = "e16")]
            "C16" => c16::run(tier, &mut rep),
            #[cfg(feature = "e20")]
            "C20" => c20::run(tier, &mut rep),
            _ => {
                eprintln!("unknown property {id}");
                std::process::exit(2)
            }
        });
        match catch_outer(run) {
            Ok(x) => x,
            Err(p) => {
                // counters of the interrupted engine are lost; the escaped panic itself is classified
                let mut r2 = Report::default();
                escaped_panic(&mut r2, "engine run", &p);
                rep.merge(r2);
                ("engine interrupted by an escaped panic".into(), String::new())
            }
        }
    };
    let json = rep.to_json(id, tier, &rule, &bounds, t0.elapsed().as_secs_f64());
    match out {
        Some(f) => std::fs::write(&f, json).expect("write report"),
        None => println!("{json}"),
    }
    if !rep.machinery_errors.is_empty() {
        for e in &rep.machinery_errors {
            eprintln!("MACHINERY: {e}");
        }
        std::process::exit(2);
    }
}
